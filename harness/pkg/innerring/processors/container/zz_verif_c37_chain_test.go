package container

// C37 world, part 1: the simulated FS chain behind the wrapped morph client (chain model M4),
// deterministic keys, witness helpers and the simulated node state (epoch, chain time, alphabet).

import (
	"bytes"
	"crypto/sha256"
	"errors"
	"fmt"
	"math/big"
	"sync"
	"time"

	"github.com/nspcc-dev/neo-go/pkg/core/block"
	"github.com/nspcc-dev/neo-go/pkg/core/interop/interopnames"
	"github.com/nspcc-dev/neo-go/pkg/core/transaction"
	"github.com/nspcc-dev/neo-go/pkg/crypto/keys"
	"github.com/nspcc-dev/neo-go/pkg/io"
	"github.com/nspcc-dev/neo-go/pkg/neorpc/result"
	"github.com/nspcc-dev/neo-go/pkg/util"
	"github.com/nspcc-dev/neo-go/pkg/vm"
	"github.com/nspcc-dev/neo-go/pkg/vm/emit"
	"github.com/nspcc-dev/neo-go/pkg/vm/stackitem"
	containerrpc "github.com/nspcc-dev/neofs-contract/rpc/container"
	"github.com/nspcc-dev/neofs-node/pkg/morph/client"
	"github.com/nspcc-dev/neofs-sdk-go/container"
	cid "github.com/nspcc-dev/neofs-sdk-go/container/id"
	"github.com/nspcc-dev/neofs-sdk-go/netmap"
	"github.com/nspcc-dev/neofs-sdk-go/user"
	"verif/simkit"
)

const simMagic = 0x56455246 // network magic of the simulated chain

var (
	keyMu    sync.Mutex
	keyCache = map[int]*keys.PrivateKey{}
)

// simKey returns the i-th deterministic private key (fixed scalar).
func simKey(i int) *keys.PrivateKey {
	keyMu.Lock()
	defer keyMu.Unlock()
	if k, ok := keyCache[i]; ok {
		return k
	}
	b := bytes.Repeat([]byte{byte(0x11 + 7*i)}, 32)
	b[0] = 0x01
	b[31] = byte(i + 1)
	k, err := keys.NewPrivateKeyFromBytes(b)
	if err != nil {
		panic(err)
	}
	keyCache[i] = k
	return k
}

func simUser(i int) user.ID { return user.NewFromECDSAPublicKey(simKey(i).PrivateKey.PublicKey) }

type hashOnly util.Uint256

func (h hashOnly) Hash() util.Uint256 { return util.Uint256(h) }

// n3Witness builds a standard single-signature witness of key signer over payload, presented
// with the verification script of key claim.
func n3Witness(signer, claim int, payload []byte, corrupt bool) (invoc, verif []byte) {
	h := sha256.Sum256(payload)
	sig := simKey(signer).SignHashable(simMagic, hashOnly(h))
	if corrupt {
		sig = bytes.Clone(sig)
		sig[5] ^= 0x40
	}
	w := io.NewBufBinWriter()
	emit.Bytes(w.BinWriter, sig)
	return w.Bytes(), simKey(claim).PublicKey().GetVerificationScript()
}

type effect struct {
	method string
	tx     util.Uint256 // main transaction hash for NotarySignAndInvokeTX
	desc   string
}

// cnrChain is the chain model: container contract state, NNS, epoch / block time, witness
// execution, and the recorder of every state-changing client call.
type cnrChain struct {
	r       *simkit.R
	cnrHash util.Uint160

	mu      sync.Mutex
	effects []effect

	cnrs   map[cid.ID]container.Container
	flavor int // 0: getInfo, 1: getContainerData only, 2: get only
	nns    map[string]map[util.Uint160]bool

	epoch     uint64
	chainTime time.Time
	nm        *netmap.NetMap

	// per-event faults
	failGet    bool
	failEpoch  bool
	failNNS    bool
	failNetMap bool
	failSign   bool
	failScript bool

	getCalls, scriptCalls, nnsCalls int
}

func (c *cnrChain) record(e effect) {
	c.mu.Lock()
	c.effects = append(c.effects, e)
	c.mu.Unlock()
}

func (c *cnrChain) snapshot() []effect {
	c.mu.Lock()
	defer c.mu.Unlock()
	return append([]effect(nil), c.effects...)
}

var errSimChain = errors.New("simulated chain RPC failure")

func cnrInfoItem(cnr container.Container) stackitem.Item {
	ver := cnr.Version()
	owner := cnr.Owner()
	attrs := []*containerrpc.ContainerAttribute{} // the contract returns an empty array, never null
	for k, v := range cnr.Attributes() {          // stored order (an ordered sequence, not a map)
		attrs = append(attrs, &containerrpc.ContainerAttribute{Key: k, Value: v})
	}
	ci := &containerrpc.ContainerInfo{
		Version:       &containerrpc.ContainerAPIVersion{Major: big.NewInt(int64(ver.Major())), Minor: big.NewInt(int64(ver.Minor()))},
		Owner:         owner.ScriptHash(),
		Nonce:         cnr.ProtoMessage().Nonce,
		BasicACL:      big.NewInt(int64(cnr.BasicACL().Bits())),
		Attributes:    attrs,
		StoragePolicy: cnr.PlacementPolicy().Marshal(),
	}
	it, err := ci.ToStackItem()
	if err != nil {
		panic(err)
	}
	return it
}

func (c *cnrChain) testInvoke(contract util.Uint160, method string, args []any) ([]stackitem.Item, error) {
	if contract != c.cnrHash {
		c.unknown("TestInvoke of contract " + contract.StringLE() + " " + method)
	}
	wantMethod := []string{"getInfo", "getContainerData", "get"}[c.flavor]
	switch method {
	case "getInfo", "getContainerData", "get":
		c.mu.Lock()
		c.getCalls++
		c.mu.Unlock()
		if c.failGet {
			return nil, errSimChain
		}
		if method != wantMethod {
			return nil, fmt.Errorf("at instruction 42 (SYSCALL): System.Contract.Call failed: method not found: %s/1", method)
		}
		if len(args) != 1 {
			c.unknown("container read with unexpected arguments")
		}
		raw, _ := args[0].([]byte)
		var id cid.ID
		if len(raw) == 32 {
			copy(id[:], raw)
		}
		cnr, ok := c.cnrs[id]
		if !ok || len(raw) != 32 {
			return nil, errors.New("at instruction 100 (THROW): unhandled exception: \"" + containerrpc.NotFoundError + "\"")
		}
		switch method {
		case "getInfo":
			return []stackitem.Item{cnrInfoItem(cnr)}, nil
		case "getContainerData":
			return []stackitem.Item{stackitem.NewByteArray(cnr.Marshal())}, nil
		default:
			return []stackitem.Item{stackitem.NewStruct([]stackitem.Item{
				stackitem.NewByteArray(cnr.Marshal()), stackitem.NewByteArray(nil), stackitem.NewByteArray(nil), stackitem.NewByteArray(nil)})}, nil
		}
	}
	c.unknown("TestInvoke container." + method)
	return nil, nil
}

var (
	checkSigID     = interopnames.ToID([]byte(interopnames.SystemCryptoCheckSig))
	checkWitnessID = interopnames.ToID([]byte(interopnames.SystemRuntimeCheckWitness))
)

// runContained models the 'invokecontainedscript' RPC: the script of tx is executed as an entry
// script with tx as the script container (real neo-go VM; CheckSig verifies against the
// container hash and the chain's magic, CheckWitness of a fee-only signer is false).
func (c *cnrChain) runContained(tx *transaction.Transaction, _ *block.Header) (*result.Invoke, error) {
	c.mu.Lock()
	c.scriptCalls++
	c.mu.Unlock()
	if c.failScript {
		return nil, errSimChain
	}
	if len(tx.Script) == 0 {
		return nil, errors.New("transaction script is empty")
	}
	v := vm.New()
	v.SetGasLimit(1_0000_0000)
	v.SyscallHandler = func(v *vm.VM, id uint32) error {
		switch id {
		case checkSigID:
			keyb := v.Estack().Pop().Bytes()
			sig := v.Estack().Pop().Bytes()
			pk, err := keys.NewPublicKeyFromBytes(keyb, simKey(0).PublicKey().Curve)
			if err != nil {
				return err
			}
			v.Estack().PushItem(stackitem.Bool(pk.VerifyHashable(sig, simMagic, tx)))
			return nil
		case checkWitnessID:
			v.Estack().Pop()
			v.Estack().PushItem(stackitem.Bool(false))
			return nil
		}
		return fmt.Errorf("syscall %d is not available in the simulated chain", id)
	}
	res := &result.Invoke{Script: tx.Script}
	func() {
		defer func() {
			if x := recover(); x != nil {
				res.State = "FAULT"
				res.FaultException = fmt.Sprint(x)
			}
		}()
		v.LoadScript(tx.Script)
		if err := v.Run(); err != nil {
			res.State = "FAULT"
			res.FaultException = err.Error()
			return
		}
		res.State = "HALT"
		res.Stack = v.Estack().ToArray()
	}()
	return res, nil
}

func (c *cnrChain) unknown(what string) {
	c.r.Report("infra", "unmodelled chain call", "the chain model has no answer for: %s", what)
	panic("verif: unmodelled chain call: " + what)
}

// SimCall implements client.SimBackend.
func (c *cnrChain) SimCall(_ *client.Client, method string, args []any) ([]any, bool) {
	switch method {
	case "TestInvoke":
		va, _ := args[2].([]any)
		items, err := c.testInvoke(args[0].(util.Uint160), args[1].(string), va)
		return []any{items, err}, true
	case "InvokeContainedScript":
		hdr, _ := args[1].(*block.Header)
		res, err := c.runContained(args[0].(*transaction.Transaction), hdr)
		return []any{res, err}, true
	case "HasUserInNNS":
		c.mu.Lock()
		c.nnsCalls++
		c.mu.Unlock()
		if c.failNNS {
			return []any{false, errSimChain}, true
		}
		return []any{c.nns[args[0].(string)][args[1].(util.Uint160)], nil}, true
	case "NotarySignAndInvokeTX":
		tx := args[0].(*transaction.Transaction)
		c.record(effect{method: method, tx: tx.Hash()})
		if c.failSign {
			return []any{errSimChain}, true
		}
		return []any{nil}, true
	case "runAlphabetNotaryScript":
		c.record(effect{method: method, desc: "alphabet script"})
		return []any{nil}, true
	case "NotaryInvoke":
		c.record(effect{method: method, desc: fmt.Sprint(args[6])})
		return []any{util.Uint256{}, nil}, true
	case "Invoke", "NotaryInvokeNotAlpha", "CallWithAlphabetWitness", "TransferGas", "UpdateNotaryList", "UpdateNeoFSAlphabetList",
		"SendRawTransaction", "SubmitP2PNotaryRequest", "DepositNotary", "DepositEndlessNotary":
		c.record(effect{method: method, desc: "unexpected writer"})
		c.unknown("state-changing call " + method)
	case "IsNotaryEnabled":
		return []any{true}, true
	}
	c.unknown(method)
	return nil, true
}

// simNet is the node's view of the network (NetworkState), owned by the tape.
type simNet struct{ c *cnrChain }

func (n simNet) Epoch() (uint64, error) {
	if n.c.failEpoch {
		return 0, errSimChain
	}
	return n.c.epoch, nil
}

func (n simNet) NetMap() (*netmap.NetMap, error) {
	if n.c.failNetMap {
		return nil, errSimChain
	}
	return n.c.nm, nil
}

func (n simNet) GetEpochBlock(e uint64) (uint32, error) {
	if e == 0 || e > n.c.epoch {
		return 0, errors.New("missing epoch")
	}
	return uint32(100 + 10*e), nil
}

func (n simNet) GetEpochBlockByTime(uint32) (uint32, error) { return uint32(100 + 10*n.c.epoch), nil }

type simClock struct{ c *cnrChain }

func (s simClock) Now() time.Time { return s.c.chainTime }

type simAlpha struct{ v *bool }

func (a simAlpha) IsAlphabet() bool { return *a.v }

type simMeta struct{ c *cnrChain }

func (m simMeta) UpdateContainerPlacement(cid.ID, [][]netmap.NodeInfo, netmap.PlacementPolicy, uint32) error {
	m.c.record(effect{method: "meta.UpdateContainerPlacement"})
	return nil
}

func (m simMeta) RegisterMetadataContainer(cid.ID, uint32) error {
	m.c.record(effect{method: "meta.RegisterMetadataContainer"})
	return nil
}

func simNetmap(n int) *netmap.NetMap {
	var nodes []netmap.NodeInfo
	for i := 0; i < n; i++ {
		var ni netmap.NodeInfo
		ni.SetPublicKey(simKey(40 + i).PublicKey().Bytes())
		ni.SetNetworkEndpoints(fmt.Sprintf("/ip4/10.0.0.%d/tcp/8080", i+1))
		ni.SetAttribute("Zone", []string{"a", "b"}[i%2])
		ni.SetOnline()
		nodes = append(nodes, ni)
	}
	nm := new(netmap.NetMap)
	if len(nodes) > 0 {
		nm.SetNodes(nodes)
	}
	return nm
}
