package getsvc

// C23: reading a whole object or any payload range through the object service returns exactly
// the original bytes -- whole, size-split (v1 / v2, via the link object or walking back from
// the last part) or erasure-coded with up to parity-count parts missing; an unsatisfiable
// range is reported as out of range.
//
// The world (zz_verif_getworld_test.go) is a cluster of 3-8 nodes each running the real
// getsvc.Service over a simulated local storage and a simulated network.

import (
	"bytes"
	"context"
	"errors"
	"fmt"
	"math"
	"sort"
	"strings"
	"testing"
	"time"

	iec "github.com/nspcc-dev/neofs-node/internal/ec"
	apistatus "github.com/nspcc-dev/neofs-sdk-go/client/status"
	"github.com/nspcc-dev/neofs-sdk-go/object"
	oid "github.com/nspcc-dev/neofs-sdk-go/object/id"
	"verif/simkit"
)

func TestVerif(t *testing.T) {
	simkit.Main(t, &simkit.Property{
		ID: "C23", Level: "exploration", Bubble: true, TapeLimit: 3000,
		Rule: "each run = one cluster of 3-8 nodes (each a real getsvc.Service over an in-memory store; calls between nodes go through a simulated network) holding one object of 0..16 KiB stored whole, size-split (v2 chain as the SDK slicer makes it, v1 chain with split ID / link listing children; child limit 1 B..2 KiB, <= 20 children), erasure-coded by the repository's encoder (2/1, 3/1, 4/2, 3/2), or size-split inside an EC container (every child encoded into parts, link stored as is); placement by a per-object node order with 1-3 copies, displaced copies, parts on fall-back nodes, an entry node holding none/some/all; faults: link object missing everywhere, a child missing everywhere, 0..parity+1 EC parts lost (removed, holder down, holder hanging), nodes down (transport error) or hanging (answer only at the caller's deadline), nodes toggled between operations; then 3-10 operations through the entry node's Service with the object server's request proxying modelled: Get, Head, GetRange(off,len) and Get with offset-length / bounds / from / suffix ranges (also payload-only), offsets and lengths drawn from child / part boundaries -1/0/+1, 0, 1, len-1, len, len+1, random and values around 2^63 and 2^64-1. distinct = trace digest; non-trivial = split or EC object and (a fault fired or a satisfiable range crossed a child / part boundary)",
		Run: runC23,
		Assumptions: []string{
			"a node's storage is modelled, not run: physical object by ID; split info built from the stored objects (and the finished parent headers they carry, which the metabase indexes too) whose parent ID is the requested one (link / last part / first ID / split ID as metabase.getParentInfo does); EC part by (parent, rule, part), the link object or last-child split info for a size-split parent as shard.GetECPart / metabase.ResolveECPart do; ranges resolved by the storage's own common.PayloadRange.Resolve",
			"a call to a remote node is a call of that node's real Service with TTL 1; its error is mapped through the object server's status conversion (pkg/services/util.ToStatus) and the SDK status decoding; a stream is delivered as all bytes followed by the error; RANGE errors surface on the first read as in the SDK; the SDK client and gRPC themselves are not executed",
			"the top-level request of the entry node is proxied to container nodes the way pkg/services/object {get,range}.go do it (header once, payload bytes beyond those already passed on, 'not found' and transport failures -> next node, any other status ends the request with that status, short or empty streams refused); this proxy is a model written from that code, the code itself is not executed",
			"a hanging node answers when the caller's context ends or after a 10 min client stream timeout; runs with a hanging node only check safety (no wrong bytes), not success",
			"success is demanded only when every needed object (all children; >= data-count parts of the EC object or of every size-split child) is held by a node that is neither down nor hanging",
			"the entry node's local HEAD of an EC object goes to an empty real engine (hard type assertion on the engine wrapper in getECObjectHeaderByRule): EC HEAD and the headers of size-split EC children must come from another node, and success is demanded only then",
			"the EC full GET is exercised without the server's streaming transport (Prm.WithECTransport unset: it needs the real engine and client cache), i.e. through restoreFromECPartsByRule, the path production takes after a partial or failed streaming attempt",
			"an empty answer to GetRange and ranges the object server rejects before the service (zero length with non-zero offset, offset+length overflow) may fail with any error",
		},
		Components: map[string]string{
			"getsvc.Service Get/GetRange/Head: local/container execution, assembly v1/v2, pipelined child streaming, EC restore / range / recovery, size-split EC objects (entry node and every remote node)": "real",
			"split chains (v2)":       "real format: SDK slicer; chains whose link would exceed the child limit are formed by a copy of the slicer's steps that is cross-checked against the slicer (same object IDs) whenever the slicer accepts the input",
			"split chains (v1)":       "built in the harness in the legacy format (split ID, previous IDs, parent header in last part and link, children list in link)",
			"EC parts":                "real: internal/ec Encode + FormObjectForECPart",
			"local object storage":    "simulated: in-memory objects answering like engine/shard/metabase (see assumptions)",
			"network, SDK client":     "simulated: direct call of the remote Service, status mapping by pkg/services/util.ToStatus + apistatus.ToError",
			"object server proxying":  "simulated: model of continueWithConn / HEAD transport (see assumptions)",
			"placement / network map": "simulated: per-object rotation of a per-run node order",
			"clock / deadlines":       "real code on the simulated clock (synctest bubble)",
		},
	})
}

// ---------------------------------------------------------------------------------------

type zzScene struct {
	r   *simkit.R
	w   *zzWorld
	l   *zzLayout
	dl  time.Duration
	lim uint64

	linkGone  bool
	childGone int // index of the child removed everywhere, -1 if none
	lostParts int // EC parts made unavailable on purpose
}

func (s *zzScene) avail(o *object.Object) bool {
	for _, n := range s.w.nodes {
		if !n.down && !n.hang && n.find(o.GetID()) != nil {
			return true
		}
	}
	return false
}

func (s *zzScene) anyHang() bool {
	for _, n := range s.w.nodes {
		if n.hang {
			return true
		}
	}
	return false
}

func (s *zzScene) availParts() int {
	c := 0
	for _, p := range s.l.children {
		if s.avail(p) {
			c++
		}
	}
	return c
}

func (s *zzScene) childAvailParts(j int) int {
	c := 0
	for _, p := range s.l.parts[j] {
		if s.avail(p) {
			c++
		}
	}
	return c
}

// worstChild returns the biggest number of unavailable parts over the children and whether
// some child misses its part #0 (size-split object of an EC container).
func (s *zzScene) worstChild() (int, bool) {
	worst, p0 := 0, false
	for j := range s.l.parts {
		worst = max(worst, len(s.l.parts[j])-s.childAvailParts(j))
		p0 = p0 || !s.avail(s.l.parts[j][0])
	}
	return worst, p0
}

// dataReachable: every object the read needs is held by a healthy node.
func (s *zzScene) dataReachable() bool {
	if s.anyHang() {
		return false
	}
	switch s.l.kind {
	case "ec":
		return s.availParts() >= int(s.w.ec.DataPartNum)
	case "ecsplit":
		// every child restorable; the chain is learnt from the link or from a part of the last child
		for j := range s.l.parts {
			if s.childAvailParts(j) < int(s.w.ec.DataPartNum) {
				return false
			}
			// walking the chain back needs the child's header, which the entry node can only get
			// from another node (its local HEAD goes to an empty engine, see the assumptions)
			remote := false
			for _, p := range s.l.parts[j] {
				for _, n := range s.w.nodes[1:] {
					remote = remote || (!n.down && !n.hang && n.find(p.GetID()) != nil)
				}
			}
			if !remote {
				return false
			}
		}
		return true
	default:
		for _, c := range s.l.children {
			if !s.avail(c) {
				return false
			}
		}
		return true
	}
}

func (s *zzScene) headReachable() bool {
	if s.anyHang() {
		return false
	}
	switch s.l.kind {
	case "ec":
		// the entry node's own parts do not count: its local HEAD goes to an empty engine (see
		// the assumptions)
		for _, p := range s.l.children {
			for _, n := range s.w.nodes[1:] {
				if !n.down && !n.hang && n.find(p.GetID()) != nil {
					return true
				}
			}
		}
		return false
	case "ecsplit":
		// only a holder of the link object can answer (a node that knows the object from parts
		// of the last child alone answers with split info); the entry node's own copy does not
		// count, see "ec"
		for _, n := range s.w.nodes[1:] {
			if !n.down && !n.hang && n.find(s.l.link.GetID()) != nil {
				return true
			}
		}
		return false
	case "whole":
		return s.avail(s.l.children[0])
	default:
		return s.avail(s.l.link) || s.avail(s.l.children[len(s.l.children)-1])
	}
}

func (s *zzScene) faultShape() string {
	var f []string
	if s.linkGone {
		f = append(f, "link-missing")
	}
	if s.childGone >= 0 {
		f = append(f, "child-missing")
	}
	if s.l.kind == "ec" {
		if miss := len(s.l.children) - s.availParts(); miss > 0 {
			if miss <= int(s.w.ec.ParityPartNum) {
				f = append(f, "parts-unavailable<=parity")
			} else {
				f = append(f, "parts-unavailable>parity")
			}
			if !s.avail(s.l.children[0]) {
				f = append(f, "part0-unavailable")
			}
		}
	}
	if s.l.kind == "ecsplit" {
		if miss, p0 := s.worstChild(); miss > 0 {
			if miss <= int(s.w.ec.ParityPartNum) {
				f = append(f, "parts-unavailable<=parity")
			} else {
				f = append(f, "parts-unavailable>parity")
			}
			if p0 {
				f = append(f, "part0-unavailable")
			}
		}
	}
	down, hang := false, false
	for _, n := range s.w.nodes {
		down = down || n.down
		hang = hang || n.hang
	}
	if down {
		f = append(f, "node-down")
	}
	if hang {
		f = append(f, "node-hang")
	}
	if len(f) == 0 {
		return "no faults"
	}
	return strings.Join(f, ",")
}

func zzHolders(w *zzWorld, id oid.ID) []int {
	var res []int
	for _, n := range w.nodes {
		if n.find(id) != nil {
			res = append(res, n.idx)
		}
	}
	return res
}

func zzPick(r *simkit.R, n int, exclude map[int]bool) int {
	var c []int
	for i := 0; i < n; i++ {
		if !exclude[i] {
			c = append(c, i)
		}
	}
	if len(c) == 0 {
		return -1
	}
	return c[r.Intn(len(c))]
}

// loseParts makes 0, 1, parity or parity+1 of the given EC parts unavailable: removed from
// their holders, or (nodes other than the entry node) the holders go down or hang.
func (s *zzScene) loseParts(parts []*object.Object, nodeFaults bool) {
	r, w := s.r, s.w
	p := int(w.ec.ParityPartNum)
	n := []int{0, 1, p, p + 1}[r.Weighted(4, 2, 4, 1)]
	s.lostParts += n
	lost := map[int]bool{}
	for k := 0; k < n; k++ {
		idx := 0
		if k > 0 || !r.Bool(40) {
			idx = zzPick(r, len(parts), lost)
		}
		if idx < 0 || lost[idx] {
			idx = zzPick(r, len(parts), lost)
		}
		if idx < 0 {
			return
		}
		lost[idx] = true
		flavour := 0
		if nodeFaults {
			flavour = r.Weighted(5, 3, 2)
		}
		for _, h := range zzHolders(w, parts[idx].GetID()) {
			switch {
			case flavour == 0 || h == 0:
				w.nodes[h].remove(parts[idx].GetID())
			case flavour == 1:
				w.nodes[h].down = true
			default:
				w.nodes[h].hang = true
			}
		}
	}
}

func zzBuildScene(r *simkit.R) *zzScene {
	kind := r.Weighted(2, 4, 4, 5, 3) // whole, v2, v1, ec, size-split in an EC container
	var rule *iec.Rule
	minNodes := 3
	if kind >= 3 {
		ru := []iec.Rule{{DataPartNum: 2, ParityPartNum: 1}, {DataPartNum: 3, ParityPartNum: 1}, {DataPartNum: 4, ParityPartNum: 2}, {DataPartNum: 3, ParityPartNum: 2}}[r.Intn(4)]
		rule = &ru
		minNodes = max(3, int(ru.DataPartNum+ru.ParityPartNum))
	}
	nn := minNodes + r.Intn(8-minNodes+1)
	repN := uint(1 + r.Intn(min(3, nn)))
	w := zzNewWorld(r, nn, rule, repN)
	w.base = r.Perm(nn)
	s := &zzScene{r: r, w: w, childGone: -1}

	// payload size, boundary directed
	var size int
	switch kind {
	case 0:
		size = []int{0, 1, 0}[r.Intn(3)]
		if size == 0 && r.Bool(80) {
			size = r.Intn(16385)
		}
	case 1, 2:
		s.lim = []uint64{64, 1, 2, 3, 7, 16, 255, 256, 1000, 2048}[r.Intn(10)]
		maxK := min(20, int(16384/s.lim))
		k := 2 + r.Intn(maxK-1)
		switch r.Intn(5) {
		case 0:
			size = k * int(s.lim)
		case 1:
			size = k*int(s.lim) + 1
		case 2:
			size = k*int(s.lim) - 1
		case 3:
			size = int(s.lim) + 1 + r.Intn(int(s.lim)*(maxK-1))
		case 4:
			size = r.Intn(int(s.lim) + 2) // usually not split at all
		}
	case 3:
		d := int(rule.DataPartNum)
		switch r.Intn(4) {
		case 0:
			size = r.Intn(3*d + 2)
		case 1:
			size = d*(1+r.Intn(2048)) + r.Intn(3) - 1
		case 2:
			size = r.Intn(16385)
		case 3:
			size = d * (1 + r.Intn(64))
		}
	case 4:
		d := int(rule.DataPartNum)
		s.lim = []uint64{64, 100, 255, 1000, 2048}[r.Intn(5)]
		k := 2 + r.Intn(5)
		switch r.Intn(4) {
		case 0:
			size = k * int(s.lim)
		case 1:
			size = k*int(s.lim) + 1 + r.Intn(d+1)
		case 2:
			size = k*int(s.lim) - 1
		case 3:
			size = int(s.lim) + 1 + r.Intn(int(s.lim)*5)
		}
	}
	payload := r.Bytes(size)
	switch kind {
	case 0:
		s.l = zzBuildWhole(w, payload)
	case 1:
		s.l = zzBuildV2(w, payload, s.lim)
	case 2:
		s.l = zzBuildV1(w, payload, s.lim, r.Bytes(16), r.Bool(30))
	case 3:
		s.l = zzBuildEC(w, payload, *rule)
	case 4:
		s.l = zzBuildECSplit(w, payload, s.lim, *rule)
	}
	l := s.l
	l.computeBounds(rule)
	if l.link != nil {
		w.linkID = l.link.GetID()
	}

	// placement
	var phys []*object.Object
	if l.kind == "ecsplit" {
		for _, ps := range l.parts {
			phys = append(phys, ps...)
		}
	} else {
		phys = append(phys, l.children...)
	}
	if l.link != nil {
		phys = append(phys, l.link)
	}
	w.rot[l.parentID] = r.Intn(nn)
	placeParts := func(parent oid.ID, parts []*object.Object) {
		order := w.orderFor(parent)
		total := int(rule.DataPartNum + rule.ParityPartNum)
		for i, p := range parts {
			var seq []int
			for x := range iec.NodeSequenceForPart(i, total, nn) {
				seq = append(seq, x)
			}
			j := min(r.Weighted(8, 2, 1), len(seq)-1)
			w.nodes[order[seq[j]]].put(p)
			if r.Bool(10) {
				w.nodes[order[seq[(j+1)%len(seq)]]].put(p)
			}
		}
	}
	switch l.kind {
	case "ec":
		placeParts(l.parentID, l.children)
	case "ecsplit":
		for j, c := range l.children {
			w.rot[c.GetID()] = r.Intn(nn)
			placeParts(c.GetID(), l.parts[j])
		}
		// the link object is broadcast to the nodes of the rule; some may have missed it
		w.rot[l.link.GetID()] = r.Intn(nn)
		order := w.orderFor(l.link.GetID())
		total := int(rule.DataPartNum + rule.ParityPartNum)
		keep := 1 + r.Intn(total)
		for c := 0; c < keep; c++ {
			w.nodes[order[(c+total-1)%total]].put(l.link)
		}
	default:
		for _, o := range phys {
			w.rot[o.GetID()] = r.Intn(nn)
			order := w.orderFor(o.GetID())
			copies := min(1+r.Weighted(7, 2, 1), nn)
			for c := 0; c < copies; c++ {
				w.nodes[order[c]].put(o)
			}
			if nn > int(repN) && r.Bool(15) {
				// the only copy sits on a reserve node
				for c := 0; c < copies; c++ {
					w.nodes[order[c]].remove(o.GetID())
				}
				w.nodes[order[int(repN)+r.Intn(nn-int(repN))]].put(o)
			}
		}
	}
	switch r.Weighted(6, 2, 2) {
	case 1: // the entry node holds nothing
		for _, o := range phys {
			if w.nodes[0].find(o.GetID()) == nil {
				continue
			}
			w.nodes[0].remove(o.GetID())
			if len(zzHolders(w, o.GetID())) == 0 {
				for _, x := range w.orderFor(o.GetID()) {
					if x != 0 {
						w.nodes[x].put(o)
						break
					}
				}
			}
		}
	case 2: // the entry node holds everything
		for _, o := range phys {
			w.nodes[0].put(o)
		}
	}

	// faults
	excl := map[int]bool{0: true}
	switch l.kind {
	case "v1", "v2":
		if r.Bool(30) {
			s.linkGone = true
			for _, n := range w.nodes {
				n.remove(l.link.GetID())
			}
		}
		if r.Bool(5) {
			s.childGone = r.Intn(len(l.children))
			for _, n := range w.nodes {
				n.remove(l.children[s.childGone].GetID())
			}
		}
	case "ec":
		s.loseParts(l.children, true)
	case "ecsplit":
		if r.Bool(30) {
			s.linkGone = true
			for _, n := range w.nodes {
				n.remove(l.link.GetID())
			}
		}
		for k := r.Weighted(3, 4, 2); k > 0; k-- {
			s.loseParts(l.parts[r.Intn(len(l.parts))], false)
		}
	}
	for k := r.Weighted(6, 3, 1); k > 0; k-- {
		if x := zzPick(r, nn, excl); x >= 0 {
			w.nodes[x].down = true
		}
	}
	if r.Bool(8) {
		if x := zzPick(r, nn, excl); x >= 0 {
			w.nodes[x].hang = true
			w.nodes[x].down = false
		}
	}
	s.dl = []time.Duration{0, 30 * time.Second, 5 * time.Minute}[r.Intn(3)]

	// describe the world
	desc := fmt.Sprintf("layout=%s size=%d nodes=%d", l.kind, len(payload), nn)
	if rule != nil {
		desc += fmt.Sprintf(" ec=%d/%d", rule.DataPartNum, rule.ParityPartNum)
	} else {
		desc += fmt.Sprintf(" rep=%d", repN)
	}
	if l.kind == "v1" || l.kind == "v2" || l.kind == "ecsplit" {
		desc += fmt.Sprintf(" limit=%d children=%d", s.lim, len(l.children))
	}
	r.Logf("world %s base=%v parent-rot=%d deadline=%v", desc, w.base, w.rot[l.parentID], s.dl)
	for i, o := range l.children {
		if l.kind == "ecsplit" {
			var hs []string
			for _, p := range l.parts[i] {
				hs = append(hs, fmt.Sprint(zzHolders(w, p.GetID())))
			}
			r.Logf("  child %d size=%d rot=%d part holders=%s", i, o.PayloadSize(), w.rot[o.GetID()], strings.Join(hs, ""))
			continue
		}
		r.Logf("  obj %d size=%d holders=%v", i, o.PayloadSize(), zzHolders(w, o.GetID()))
	}
	if l.link != nil {
		r.Logf("  link holders=%v", zzHolders(w, l.link.GetID()))
	}
	for _, n := range w.nodes {
		if n.down || n.hang {
			r.Logf("  node %d down=%v hang=%v", n.idx, n.down, n.hang)
		}
	}
	return s
}

// ---------------------------------------------------------------------------------------
// expectations (written from the statement and the API documentation of the range modes)

type zzExpect struct {
	lo, hi      int  // the correct answer is payload[lo:hi] ...
	okAllowed   bool // ... and success with exactly these bytes is an acceptable outcome
	errAllowed  bool // an error is acceptable even when all data is reachable
	oorRequired bool // when all data is reachable the error must be "out of range"
	class       string
}

func zzExpectOffLen(L, off, ln uint64) zzExpect {
	switch {
	case ln == 0 && off == 0:
		return zzExpect{lo: 0, hi: int(L), okAllowed: true, class: "zero-zero=whole"}
	case ln == 0:
		// the API rejects it before the service; the service may refuse or serve the tail
		if off <= L {
			return zzExpect{lo: int(off), hi: int(L), okAllowed: true, errAllowed: true, class: "zero-length"}
		}
		return zzExpect{errAllowed: true, class: "zero-length"}
	case off+ln < off:
		return zzExpect{errAllowed: true, class: "overflow"}
	case off <= L && ln <= L-off:
		return zzExpect{lo: int(off), hi: int(off + ln), okAllowed: true, class: "satisfiable"}
	}
	return zzExpect{errAllowed: true, oorRequired: true, class: "unsatisfiable"}
}

func zzExpectBounds(L, first, last uint64) zzExpect {
	switch {
	case first > last:
		return zzExpect{errAllowed: true, class: "bounds-inverted"}
	case first >= L:
		return zzExpect{errAllowed: true, oorRequired: true, class: "unsatisfiable"}
	case last >= L:
		return zzExpect{lo: int(first), hi: int(L), okAllowed: true, errAllowed: true, class: "bounds-beyond-end"}
	}
	return zzExpect{lo: int(first), hi: int(last + 1), okAllowed: true, class: "satisfiable"}
}

func zzExpectFrom(L, first uint64) zzExpect {
	switch {
	case first < L:
		return zzExpect{lo: int(first), hi: int(L), okAllowed: true, class: "satisfiable"}
	case L == 0 && first == 0:
		return zzExpect{okAllowed: true, errAllowed: true, class: "from-empty"}
	}
	return zzExpect{errAllowed: true, oorRequired: true, class: "unsatisfiable"}
}

func zzExpectSuffix(L, n uint64) zzExpect {
	switch {
	case n == 0:
		return zzExpect{errAllowed: true, class: "suffix-zero"}
	case n > L:
		return zzExpect{lo: 0, hi: int(L), okAllowed: true, errAllowed: true, class: "suffix-beyond-start"}
	}
	return zzExpect{lo: int(L - n), hi: int(L), okAllowed: true, class: "satisfiable"}
}

// ---------------------------------------------------------------------------------------
// operations

func (s *zzScene) points() []uint64 {
	L := uint64(len(s.l.payload))
	set := map[uint64]bool{0: true, 1: true, L: true, L + 1: true}
	if L > 0 {
		set[L-1] = true
	}
	for _, b := range s.l.bounds {
		set[b-1], set[b], set[b+1] = true, true, true
	}
	res := make([]uint64, 0, len(set))
	for p := range set {
		res = append(res, p)
	}
	sort.Slice(res, func(i, j int) bool { return res[i] < res[j] })
	return res
}

func (s *zzScene) huge() []uint64 {
	L := uint64(len(s.l.payload))
	return []uint64{1<<63 - 1, 1 << 63, 1<<63 + 1, math.MaxUint64, math.MaxUint64 - 1, math.MaxUint64 - L, math.MaxUint64 - L + 1, 1 << 32, 1<<32 + 1}
}

func (s *zzScene) drawOff() uint64 {
	r := s.r
	L := len(s.l.payload)
	switch r.Weighted(6, 3, 1) {
	case 1:
		return uint64(r.Intn(L + 2))
	case 2:
		h := s.huge()
		return h[r.Intn(len(h))]
	}
	p := s.points()
	return p[r.Intn(len(p))]
}

func (s *zzScene) drawLen(off uint64) uint64 {
	r := s.r
	L := uint64(len(s.l.payload))
	switch r.Weighted(6, 2, 1, 1) {
	case 1:
		if off <= L {
			return 1 + uint64(r.Intn(int(L-off)+2))
		}
		return 1 + uint64(r.Intn(4))
	case 2:
		return []uint64{math.MaxUint64, math.MaxUint64 - off, math.MaxUint64 - off + 1, 1 << 63, 1<<63 + 1, 1 << 32}[r.Intn(6)]
	case 3:
		return 0
	}
	p := s.points()
	if end := p[r.Intn(len(p))]; end > off {
		return end - off
	}
	return 1
}

func (s *zzScene) crosses(lo, hi int) bool {
	for _, b := range s.l.bounds {
		if uint64(lo) < b && b < uint64(hi) {
			return true
		}
	}
	return false
}

func zzErrS(err error) string {
	switch {
	case err == nil:
		return "ok"
	case errors.Is(err, apistatus.ErrObjectOutOfRange):
		return "out-of-range"
	}
	return "error"
}

func (s *zzScene) sameHeader(got *object.Object) bool {
	if got == nil {
		return false
	}
	return bytes.Equal(zzHdr(got).Marshal(), zzHdr(s.l.parent).Marshal())
}

func (s *zzScene) toggle() {
	r := s.r
	if !r.Bool(12) {
		return
	}
	x := zzPick(r, len(s.w.nodes), map[int]bool{0: true})
	if x < 0 {
		return
	}
	n := s.w.nodes[x]
	if n.hang {
		n.hang = false
	} else {
		n.down = !n.down
	}
	r.Logf("node %d now down=%v hang=%v", x, n.down, n.hang)
}

func (s *zzScene) doOp() {
	r, w, l := s.r, s.w, s.l
	L := uint64(len(l.payload))
	addr := oid.NewAddress(w.cnrID, l.parentID)
	entry := w.nodes[0].svc
	ctx := context.Background()
	if s.dl > 0 {
		var cancel context.CancelFunc
		ctx, cancel = context.WithTimeout(ctx, s.dl)
		defer cancel()
	}
	w.hitDown.Store(false)
	w.hitHang.Store(false)
	w.remoteGet.Store(0)
	w.linkRead.Store(false)
	col := new(zzCollector)
	px := &zzProxy{w: w, col: col}
	t0 := time.Now()

	op := r.Weighted(2, 4, 4, 1) // Get, GetRange, Get with range, Head
	var (
		err         error
		exp         zzExpect
		name, opn   string
		payloadOnly bool
	)
	switch op {
	case 0:
		name, opn = "Get", "Get"
		exp = zzExpect{lo: 0, hi: int(L), okAllowed: true, class: "whole"}
		var p Prm
		p.SetCommonParameters(zzCommon(2, nil))
		p.WithAddress(addr)
		p.WithContainer(w.cnr)
		p.SetObjectWriter(col)
		p.SetTransportFunc(px.getFn(addr, p.payloadRange))
		err = entry.Get(ctx, p)
	case 1:
		off := s.drawOff()
		ln := s.drawLen(off)
		name, opn = fmt.Sprintf("GetRange(off=%d,len=%d)", off, ln), "GetRange"
		exp = zzExpectOffLen(L, off, ln)
		if exp.okAllowed && exp.hi == exp.lo {
			// an empty answer of a container node is an empty stream to the proxying server, which
			// it refuses; that belongs to the object server, not to the read path under test
			exp.errAllowed = true
		}
		var p RangePrm
		p.SetCommonParameters(zzCommon(2, nil))
		p.WithAddress(addr)
		p.WithContainer(w.cnr)
		rng := object.NewRange()
		rng.SetOffset(off)
		rng.SetLength(ln)
		p.SetRange(rng)
		p.SetChunkWriter(col)
		payloadOnly = true
		p.SetTransportFunc(px.rangeFn(addr, off, ln))
		err = entry.GetRange(ctx, p)
	case 2:
		var p Prm
		p.SetCommonParameters(zzCommon(2, nil))
		p.WithAddress(addr)
		p.WithContainer(w.cnr)
		p.SetObjectWriter(col)
		switch r.Weighted(4, 3, 2, 2) {
		case 0:
			off := s.drawOff()
			ln := s.drawLen(off)
			name, opn = fmt.Sprintf("Get[off=%d,len=%d]", off, ln), "Get[off,len]"
			exp = zzExpectOffLen(L, off, ln)
			rng := object.NewRange()
			rng.SetOffset(off)
			rng.SetLength(ln)
			p.SetRange(rng)
		case 1:
			first := s.drawOff()
			last := s.drawOff()
			if last < first && r.Bool(85) {
				first, last = last, first
			}
			name, opn = fmt.Sprintf("Get[bounds %d..%d]", first, last), "Get[bounds]"
			exp = zzExpectBounds(L, first, last)
			p.SetRangeBounds(first, last)
		case 2:
			first := s.drawOff()
			name, opn = fmt.Sprintf("Get[from %d]", first), "Get[from]"
			exp = zzExpectFrom(L, first)
			p.SetRangeFrom(first)
		case 3:
			n := s.drawOff()
			if r.Bool(50) && n <= L {
				n = L - n // suffix starting at a boundary
			}
			name, opn = fmt.Sprintf("Get[suffix %d]", n), "Get[suffix]"
			exp = zzExpectSuffix(L, n)
			p.SetRangeSuffix(n)
		}
		if r.Bool(30) {
			payloadOnly = true
			p.MarkPayloadOnly()
			name += " payload-only"
			opn += " payload-only"
			px.suppressInit = true
		}
		p.SetTransportFunc(px.getFn(addr, p.payloadRange))
		err = entry.Get(ctx, p)
	case 3:
		name, opn = "Head", "Head"
		var p HeadPrm
		p.SetCommonParameters(zzCommon(2, nil))
		p.WithAddress(addr)
		p.WithContainer(w.cnr)
		p.SetHeaderWriter(col)
		p.SetTransportFunc(px.headFn(addr))
		p.SetSubmitHeadResponseFunc(px.submitHead)
		err = entry.Head(ctx, p)
	}
	if err == nil && px.status != nil {
		// a container node finished the proxied request with a status: that is the client's answer
		err = px.status
	}
	r.AddSimTime(time.Since(t0))
	shape := s.faultShape()
	r.Op("%s -> %s bytes=%d headers=%d [%s]", name, zzErrS(err), zzLenIfOK(err, col), col.hdrs, shape)

	// evidence
	if w.hitDown.Load() {
		r.Fired("node down: transport error")
	}
	if w.hitHang.Load() {
		r.Fired("node hang: answer at deadline")
	}
	split := l.kind == "v1" || l.kind == "v2"
	fault := w.hitDown.Load() || w.hitHang.Load()
	if split && op != 3 {
		if s.linkGone {
			r.Fired("link object missing on all nodes")
			fault = true
			if err == nil {
				r.Probe("link object missing -> reverse walk")
			}
		}
		if s.childGone >= 0 {
			r.Fired("child missing on all nodes")
			fault = true
		}
	}
	if l.kind == "ec" {
		if miss := len(l.children) - s.availParts(); miss > 0 {
			r.Fired("EC part unavailable")
			fault = true
			if miss == int(w.ec.ParityPartNum) && op != 3 {
				r.Probe("EC read with exactly parity-count parts missing")
				if err == nil {
					r.Probe("EC read with exactly parity-count parts missing: served")
				}
			}
		}
	}
	if l.kind == "ecsplit" {
		if s.linkGone && op != 3 {
			r.Fired("link object missing on all nodes")
			fault = true
			if err == nil {
				r.Probe("EC size-split: link missing -> chain walked back from the last child")
			}
		}
		if miss, _ := s.worstChild(); miss > 0 {
			r.Fired("EC part unavailable")
			fault = true
			if miss == int(w.ec.ParityPartNum) && op != 3 {
				r.Probe("EC size-split: a child with exactly parity-count parts missing")
			}
		}
		if err == nil && op != 3 {
			r.Probe("EC size-split object served")
		}
	}
	crossing := false
	if (op == 1 || op == 2) && exp.okAllowed && exp.hi > exp.lo {
		crossing = s.crosses(exp.lo, exp.hi)
		if split && crossing {
			r.Probe("range spans child boundary")
		}
		if l.kind == "ec" && crossing {
			r.Probe("range spans EC part boundary")
		}
		if l.kind == "ecsplit" && crossing {
			r.Probe("EC size-split: range spans a child or part boundary")
		}
		if l.kind == "ec" && !crossing && exp.class == "satisfiable" {
			r.Probe("range within single EC part")
		}
		if uint64(exp.hi) == L && exp.class == "satisfiable" {
			r.Probe("range touching last byte")
		}
		for _, b := range l.bounds {
			if uint64(exp.lo) == b {
				r.Probe("range starts at a boundary")
			}
			if uint64(exp.hi) == b {
				r.Probe("range ends at a boundary")
			}
		}
	}
	switch exp.class {
	case "overflow":
		r.Probe("offset+len overflows uint64")
	case "unsatisfiable":
		r.Probe("unsatisfiable range")
	}
	if w.remoteGet.Load() > 0 && w.nodes[0].find(l.children[len(l.children)-1].GetID()) == nil && split {
		r.Probe("last part reachable only via another node")
	}
	if l.kind != "whole" && (fault || crossing) {
		r.Nontrivial()
	}

	// oracle
	sig := func(what string) string {
		c := exp.class
		if crossing {
			c += ",crosses-boundary"
		}
		path := ""
		if (split || l.kind == "ecsplit") && op != 3 {
			// which way the object was assembled (by the entry node or by a container node)
			path = "via last part; "
			if w.linkRead.Load() {
				path = "via link; "
			}
		}
		return fmt.Sprintf("%s %s %s: %s [%s%s]", l.kind, opn, c, what, path, shape)
	}
	if op == 3 {
		if err == nil {
			if col.hdrs != 1 || !s.sameHeader(col.hdr) {
				r.Failf("c23-wrong-header", sig("Head returned another header"), "%s: %d headers written, header differs from the stored object's header", name, col.hdrs)
			}
			return
		}
		if s.headReachable() {
			r.Failf("c23-read-failed", sig("Head fails though a header holder is reachable"), "%s fails with %q though the header is held by a healthy node", name, err)
		}
		return
	}
	want := l.payload[exp.lo:exp.hi]
	var lastChild []byte
	if split {
		lastChild = l.children[len(l.children)-1].Payload()
	}
	if err == nil {
		if !exp.okAllowed {
			r.Failf("c23-unsatisfiable-served", sig("success on a range that cannot be satisfied"), "%s on a %d-byte object succeeds with %d bytes", name, L, len(col.data))
		}
		if !bytes.Equal(col.data, want) {
			r.Failf("c23-wrong-bytes", sig("success with wrong bytes ("+zzWrongness(col.data, want, lastChild)+")"), "%s on a %d-byte object returns %d bytes, expected payload[%d:%d] (%d bytes); first difference at %d", name, L, len(col.data), exp.lo, exp.hi, len(want), zzFirstDiff(col.data, want))
		}
		if !payloadOnly {
			if col.hdrs != 1 || !s.sameHeader(col.hdr) {
				r.Failf("c23-wrong-header", sig("payload served with another header"), "%s: %d headers written, header differs from the stored object's header", name, col.hdrs)
			}
		} else if col.validated != nil && !s.sameHeader(col.validated) {
			r.Failf("c23-wrong-header", sig("payload-only read validated another header"), "%s: validated header differs from the stored object's header", name)
		}
		return
	}
	// failure: what was streamed must be a prefix of the right answer
	if !exp.okAllowed {
		want = nil
	}
	if len(col.data) > len(want) || !bytes.Equal(col.data, want[:len(col.data)]) {
		r.Failf("c23-wrong-bytes", sig("wrong bytes streamed before the error"), "%s on a %d-byte object streams %d bytes that are not a prefix of payload[%d:%d], then fails with %q", name, L, len(col.data), exp.lo, exp.hi, err)
	}
	if !s.dataReachable() {
		return
	}
	if !exp.errAllowed {
		progress := "nothing"
		switch {
		case len(col.data) > 0:
			progress = "part of the payload"
		case col.hdrs > 0:
			progress = "the header"
		}
		r.Failf("c23-read-failed", sig("read fails ("+zzErrKind(err)+" after "+progress+") though all needed data is reachable"), "%s on a %d-byte object fails with %q after %d bytes though every needed object is held by a healthy node", name, L, err, len(col.data))
	}
	if exp.oorRequired && !errors.Is(err, apistatus.ErrObjectOutOfRange) {
		r.Failf("c23-out-of-range", sig("unsatisfiable range not reported as out of range"), "%s on a %d-byte object fails with %q instead of the out-of-range status", name, L, err)
	}
}

func zzErrKind(err error) string {
	switch {
	case errors.Is(err, apistatus.ErrObjectNotFound):
		return "not found"
	case errors.Is(err, apistatus.ErrObjectOutOfRange):
		return "out of range"
	case errors.Is(err, context.DeadlineExceeded), errors.Is(err, context.Canceled):
		return "deadline"
	case errors.Is(err, apistatus.Error):
		return "other status"
	}
	return "error"
}

func zzLenIfOK(err error, c *zzCollector) int {
	if err != nil {
		return -1
	}
	return len(c.data)
}

// zzWrongness names how a returned byte string differs from the expected one.
func zzWrongness(got, want, lastChild []byte) string {
	switch {
	case len(got) == 0:
		return "nothing returned"
	case len(got) > len(want) && bytes.Equal(got[:len(want)], want):
		if lastChild != nil && bytes.Equal(got[len(want):], lastChild) {
			return "right bytes followed by the whole last child"
		}
		return "right bytes followed by extra bytes"
	case len(got) < len(want) && bytes.Equal(got, want[:len(got)]):
		return "only a prefix returned"
	case len(got) == len(want):
		return "right length, other bytes"
	}
	return "other bytes, other length"
}

func zzFirstDiff(a, b []byte) int {
	for i := 0; i < len(a) && i < len(b); i++ {
		if a[i] != b[i] {
			return i
		}
	}
	return min(len(a), len(b))
}

func runC23(r *simkit.R) {
	s := zzBuildScene(r)
	nops := 3 + r.Intn(8)
	for i := 0; i < nops; i++ {
		r.Step()
		s.toggle()
		s.doOp()
	}
}
