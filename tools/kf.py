#!/usr/bin/env python3
"""kf.py merge <world>            : move entries of known_findings.d/<world>.json into known_findings.json
   kf.py fixed <id> <commit>     : mark finding <id> fixed by /repo commit (entry stays, suppresses nothing)"""
import json, os, sys
V = os.path.dirname(os.path.dirname(os.path.abspath(__file__)))
main = os.path.join(V, "known_findings.json")
d = json.load(open(main))
if sys.argv[1] == "merge":
    p = os.path.join(V, "known_findings.d", sys.argv[2] + ".json")
    new = json.load(open(p))["findings"]
    ids = {f.get("id") for f in d["findings"]}
    for f in new:
        if f.get("id") in ids:
            print("duplicate id", f.get("id")); sys.exit(1)
    d["findings"] += new
    os.remove(p)
    print("merged", len(new), "from", p)
elif sys.argv[1] == "fixed":
    fid, commit = sys.argv[2], sys.argv[3]
    n = 0
    for f in d["findings"]:
        if f.get("id") == fid:
            f["status"] = "fixed"; f["commit"] = commit
            if not f["what"].startswith("fixed:"):
                f["what"] = "fixed: property=%s %s %s" % (f["property"], commit, f["what"])
            n += 1
    print("marked", n)
json.dump(d, open(main, "w"), indent=1)
