package zzverif

import (
	"fmt"
	"sort"
)

// Status classes of an address as the statements define them.
type Status int

const (
	StAvailable Status = iota // readable / exists
	StMissing                 // never stored (or physically deleted): plain not-found / exists=false
	StNotFound                // marked as garbage or container removed: reported as not found
	StRemoved                 // a tombstone targets it: "already removed"
	StExpired                 // past its expiration epoch
)

func (s Status) String() string {
	return [...]string{"available", "missing", "not-found(marked)", "removed", "expired"}[s]
}

// StatusSet is a set of allowed statuses.
type StatusSet uint8

func (s StatusSet) Has(x Status) bool { return s&(1<<uint(x)) != 0 }
func (s *StatusSet) Add(x Status)     { *s |= 1 << uint(x) }
func (s StatusSet) String() string {
	out := ""
	for x := StAvailable; x <= StExpired; x++ {
		if s.Has(x) {
			if out != "" {
				out += "|"
			}
			out += x.String()
		}
	}
	return "{" + out + "}"
}

// Mark kinds.
const (
	MarkNone      = 0
	MarkDefault   = 1
	MarkRedundant = 2
)

// Ent is an entry the metadata indexes: a physically stored object or a virtual parent
// known only through the parent header of a stored child.
type Ent struct {
	S   *Spec
	Phy bool
}

// Cnr is the model state of one container on one shard.
type Cnr struct {
	Removed bool
	PartialRevives int // revivals that removed one of several tombstones of an address
	NonPhyMarkOps int // garbage keys created or removed for ids that are not stored physical objects
	Reputs  int // accepted puts to an address (or with a parent) hidden by a garbage mark
	Has     bool // the shard has seen this container (something was stored or it was removed)
	Stored  map[int]*Ent
	Marks   map[int]int
}

// M1 is the reference model of one shard's object statuses.
type M1 struct {
	U     *Universe
	Epoch uint64
	C     []*Cnr
}

// NewM1 creates an empty model over u.
func NewM1(u *Universe) *M1 {
	m := &M1{U: u}
	for range u.Cnrs {
		m.C = append(m.C, &Cnr{Stored: map[int]*Ent{}, Marks: map[int]int{}})
	}
	return m
}

// Clone deep-copies the model (specs are shared, they are immutable).
func (m *M1) Clone() *M1 {
	n := &M1{U: m.U, Epoch: m.Epoch}
	for _, c := range m.C {
		nc := &Cnr{Removed: c.Removed, Has: c.Has, Reputs: c.Reputs, PartialRevives: c.PartialRevives, NonPhyMarkOps: c.NonPhyMarkOps, Stored: map[int]*Ent{}, Marks: map[int]int{}}
		for k, v := range c.Stored {
			e := *v
			nc.Stored[k] = &e
		}
		for k, v := range c.Marks {
			nc.Marks[k] = v
		}
		n.C = append(n.C, nc)
	}
	return n
}

func (c *Cnr) ids() []int {
	var ks []int
	for k := range c.Stored {
		ks = append(ks, k)
	}
	sort.Ints(ks)
	return ks
}

// Tombstoned: a stored tombstone targets id (tombstone expiry does not matter: it stays in
// force until the tombstone object itself is removed).
func (m *M1) Tombstoned(cn, id int) bool {
	for _, e := range m.C[cn].Stored {
		if e.S.Kind == KTomb && e.S.Target == id {
			return true
		}
	}
	return false
}

// TombstonesOf lists the stored tombstones targeting id.
func (m *M1) TombstonesOf(cn, id int) []int {
	var out []int
	for _, k := range m.C[cn].ids() {
		e := m.C[cn].Stored[k]
		if e.S.Kind == KTomb && e.S.Target == id {
			out = append(out, k)
		}
	}
	return out
}

func (m *M1) expiredSpec(s *Spec) bool { return s.Exp >= 0 && m.Epoch > uint64(s.Exp) }

// markedForRemoval: a tombstone targets it or it carries a (non-redundant) garbage mark.
func (m *M1) markedForRemoval(cn, id int) bool {
	return m.Tombstoned(cn, id) || m.C[cn].Marks[id] == MarkDefault
}

// Locked: a stored lock targets id, has not expired and is not itself removed.
func (m *M1) Locked(cn, id int) bool {
	for lid, e := range m.C[cn].Stored {
		if e.S.Kind != KLock || e.S.Target != id {
			continue
		}
		if m.expiredSpec(e.S) {
			continue
		}
		if m.markedForRemoval(cn, lid) {
			continue
		}
		return true
	}
	return false
}

// ownReasons returns the statuses that apply to id by itself and whether it must be
// unavailable.  allowAvail is set when the statements allow "available" despite a reason
// (lock vs. tombstone, which the statements do not order).
func (m *M1) ownReasons(cn, id int) (rs StatusSet, must bool) {
	c := m.C[cn]
	e := c.Stored[id]
	locked := m.Locked(cn, id)
	exp := e != nil && m.expiredSpec(e.S)
	ts := m.Tombstoned(cn, id)
	gm := c.Marks[id] == MarkDefault
	if locked {
		// a live lock overrides expiry and garbage marks; lock-vs-tombstone is not ordered by
		// the statements (only reachable through resync / revive orders): either answer.
		if ts {
			rs.Add(StRemoved)
		}
		return rs, false
	}
	if exp {
		rs.Add(StExpired)
	}
	if ts {
		rs.Add(StRemoved)
	}
	if gm {
		rs.Add(StNotFound)
	}
	return rs, rs != 0
}

// parentOf returns the parent the metadata can link id to: directly through the parent header,
// or (weak=true) through a sibling of the same split chain that carries the parent header.
func (m *M1) parentOf(cn, id int) (par int, weak bool) {
	c := m.C[cn]
	e := c.Stored[id]
	if e == nil {
		return -1, false
	}
	if e.S.Parent >= 0 {
		return e.S.Parent, false
	}
	if e.S.First >= 0 || e.S.Split >= 0 {
		for _, k := range c.ids() {
			o := c.Stored[k]
			if k == id || o.S.Parent < 0 {
				continue
			}
			if (e.S.First >= 0 && o.S.First == e.S.First) || (e.S.Split >= 0 && o.S.Split == e.S.Split) {
				return o.S.Parent, true
			}
		}
	}
	return -1, false
}

// Allowed returns the set of statuses a view may report for the address and whether
// "available" is excluded (must be unavailable) — see DESIGN.md §3.5.
func (m *M1) Allowed(cn, id int) StatusSet {
	return m.allowed(cn, id, 0)
}

func (m *M1) allowed(cn, id int, depth int) StatusSet {
	c := m.C[cn]
	if c.Removed {
		var s StatusSet
		s.Add(StNotFound)
		return s
	}
	rs, must := m.ownReasons(cn, id)
	e := c.Stored[id]
	var out StatusSet = rs
	if !must {
		if e != nil {
			out.Add(StAvailable)
		} else {
			out.Add(StMissing)
		}
	}
	if e != nil && depth < 2 {
		if par, weak := m.parentOf(cn, id); par >= 0 {
			ps := m.allowed(cn, par, depth+1)
			// inherit every non-available status of the parent
			inh := ps &^ (1<<uint(StAvailable) | 1<<uint(StMissing))
			if inh != 0 {
				parentMust := !ps.Has(StAvailable) && !ps.Has(StMissing)
				if parentMust && !weak {
					// a child inherits a worse status from its parent: it cannot be available
					out &^= 1<<uint(StAvailable) | 1<<uint(StMissing)
				}
				out |= inh
			}
		}
	}
	return out
}

// Listed: physical objects not marked for removal, container alive ("listing omits exactly
// the objects marked for removal").
func (m *M1) Listed() map[[2]int]bool {
	out := map[[2]int]bool{}
	for cn, c := range m.C {
		if c.Removed {
			continue
		}
		for id, e := range c.Stored {
			if e.Phy && !m.markedForRemoval(cn, id) {
				out[[2]int{cn, id}] = true
			}
		}
	}
	return out
}

// ExpiredIter: the expired, unlocked objects of live containers.
func (m *M1) ExpiredIter(epoch uint64) map[[2]int]bool {
	out := map[[2]int]bool{}
	for cn, c := range m.C {
		if c.Removed {
			continue
		}
		for id, e := range c.Stored {
			if e.S.Exp >= 0 && epoch > uint64(e.S.Exp) && !m.Locked(cn, id) {
				out[[2]int{cn, id}] = true
			}
		}
	}
	return out
}

// family returns the members the metadata can reach from a (possibly virtual) parent id:
// its direct children (parent header), the other members of their split chains, recursively.
func (m *M1) family(cn, par int, depth int) []int {
	c := m.C[cn]
	seen := map[int]bool{}
	var out []int
	add := func(k int) {
		if !seen[k] && k != par {
			seen[k] = true
			out = append(out, k)
		}
	}
	var direct []int
	for _, k := range c.ids() {
		if c.Stored[k].S.Parent == par {
			direct = append(direct, k)
		}
	}
	ec := false
	for _, k := range direct {
		if c.Stored[k].S.ECRule >= 0 {
			ec = true
		}
	}
	if ec {
		for _, k := range direct {
			if c.Stored[k].S.ECRule >= 0 {
				add(k)
			}
		}
		return out
	}
	for _, k := range direct {
		add(k)
		s := c.Stored[k].S
		if s.First >= 0 {
			add(s.First) // the chain's first part, stored or not
		}
		for _, j := range c.ids() {
			o := c.Stored[j].S
			if (s.First >= 0 && o.First == s.First) || (s.First < 0 && s.Split >= 0 && o.Split == s.Split) {
				add(j)
			}
		}
	}
	if depth < 2 {
		for _, k := range append([]int(nil), out...) {
			for _, g := range m.family(cn, k, depth+1) {
				add(g)
			}
		}
	}
	return out
}

// PutVerdict is what the statements say about admitting a put.
type PutVerdict int

const (
	PutUnspecified PutVerdict = iota
	PutMustReject
	PutMustAccept
)

// JudgePut returns the verdict for storing s now, with a reason.
func (m *M1) JudgePut(s *Spec) (PutVerdict, string) {
	c := m.C[s.Cnr]
	if c.Removed {
		return PutUnspecified, ""
	}
	if e := c.Stored[s.ID]; e != nil && e.Phy {
		return PutUnspecified, "" // duplicate
	}
	switch s.Kind {
	case KLock:
		if m.Tombstoned(s.Cnr, s.Target) {
			return PutMustReject, "lock for an already tombstoned object [target " + m.Facts(s.Cnr, s.Target) + "]"
		}
	case KTomb:
		if m.Locked(s.Cnr, s.Target) {
			return PutMustReject, "tombstone for an object protected by a live lock [target " + m.Facts(s.Cnr, s.Target) + "]"
		}
		if t := c.Stored[s.Target]; t != nil && t.S.Kind == KLock {
			return PutMustReject, "tombstone targeting a lock object"
		}
	case KReg:
		if s.Parent < 0 && !s.NoIDPa && s.First < 0 && s.Split < 0 && c.Stored[s.ID] == nil && c.Marks[s.ID] == MarkNone && !m.Tombstoned(s.Cnr, s.ID) {
			return PutMustAccept, "fresh regular object in a live container"
		}
	}
	return PutUnspecified, ""
}

// ApplyPut records a put the shard accepted.
func (m *M1) ApplyPut(s *Spec) {
	c := m.C[s.Cnr]
	c.Has = true
	_, hidden := m.ownReasons(s.Cnr, s.ID)
	if e := c.Stored[s.ID]; e != nil && e.Phy && !hidden {
		return // a duplicate of an available object changes nothing
	}
	// An address hidden by a garbage mark is "not found", so the shard indexes the object
	// (again); the mark stays.  The same holds for the parent header it carries.
	if hidden || c.Marks[s.ID] != MarkNone {
		c.Reputs++
	} else if par := s.Parent; par >= 0 && c.Stored[par] != nil {
		if _, must := m.ownReasons(s.Cnr, par); must {
			c.Reputs++
		}
	}
	// virtual parent chain
	for p, depth := s.Parent, 0; p >= 0 && depth < 2; depth++ {
		ps := m.U.Specs[p]
		if c.Stored[p] == nil {
			c.Stored[p] = &Ent{S: ps, Phy: false}
		}
		p = ps.Parent
	}
	if s.Kind == KTomb {
		// the tombstone marks its target and everything of the target's family for removal
		for _, k := range append([]int{s.Target}, m.family(s.Cnr, s.Target, 0)...) {
			if e := c.Stored[k]; c.Marks[k] == MarkNone && (e == nil || !e.Phy) {
				c.NonPhyMarkOps++
			}
			c.Marks[k] = MarkDefault
		}
	}
	c.Stored[s.ID] = &Ent{S: s, Phy: true}
}

// ApplyMark records an accepted garbage mark of ids (with their families).
func (m *M1) ApplyMark(cn int, ids []int, mark int) {
	c := m.C[cn]
	if c.Removed || !c.Has {
		return // nothing of this container is known to the shard: nothing to mark
	}
	var all []int
	for _, id := range ids {
		all = append(all, id)
		all = append(all, m.family(cn, id, 0)...)
	}
	for _, k := range all {
		switch {
		case c.Marks[k] == MarkNone:
			if e := c.Stored[k]; e == nil || !e.Phy {
				c.NonPhyMarkOps++
			}
			c.Marks[k] = mark
		case mark == MarkDefault:
			c.Marks[k] = MarkDefault
		}
	}
}

// ApplyDelete records the physical removal (GC) of ids; returns what disappeared.
func (m *M1) ApplyDelete(cn int, ids []int) []int {
	c := m.C[cn]
	// removing an EC parent removes its parts too
	all := append([]int(nil), ids...)
	for _, id := range ids {
		for _, k := range c.ids() {
			e := c.Stored[k]
			if e.S.Parent == id && e.S.ECRule >= 0 && !containsInt(all, k) {
				all = append(all, k)
			}
		}
	}
	var gone []int
	for _, id := range all {
		e := c.Stored[id]
		if e != nil && !e.Phy {
			continue // a virtual entry disappears only with its last child
		}
		if e == nil && c.Marks[id] != MarkNone {
			c.NonPhyMarkOps++
		}
		delete(c.Marks, id)
		if e == nil {
			continue
		}
		delete(c.Stored, id)
		gone = append(gone, id)
		m.dropOrphanParent(cn, e.S.Parent, &gone)
	}
	return gone
}

func (m *M1) dropOrphanParent(cn, par int, gone *[]int) {
	if par < 0 {
		return
	}
	c := m.C[cn]
	pe := c.Stored[par]
	if pe == nil {
		return
	}
	for _, o := range c.Stored {
		if o.S.Parent == par {
			return
		}
	}
	delete(c.Stored, par)
	if c.Marks[par] != MarkNone && !pe.Phy {
		c.NonPhyMarkOps++
	}
	delete(c.Marks, par)
	*gone = append(*gone, par)
	if !pe.Phy {
		m.dropOrphanParent(cn, pe.S.Parent, gone)
	}
}

func containsInt(s []int, x int) bool {
	for _, v := range s {
		if v == x {
			return true
		}
	}
	return false
}

// ApplyInhumeContainer marks the container removed.
func (m *M1) ApplyInhumeContainer(cn int) { m.C[cn].Removed = true; m.C[cn].Has = true }

// ApplyDeleteContainer forgets the container completely.
func (m *M1) ApplyDeleteContainer(cn int) {
	m.C[cn] = &Cnr{Stored: map[int]*Ent{}, Marks: map[int]int{}}
}

// ApplyRevive records a successful revival: the mark goes, and the tombstone the shard
// reported as removed (tomb, -1 if none) disappears.
func (m *M1) ApplyRevive(cn, id, tomb int) {
	c := m.C[cn]
	if e := c.Stored[id]; e == nil || !e.Phy {
		// reviving an address that is not a stored physical object (its garbage key may be
		// gone already): counted as an operation on a non-physical garbage key
		c.NonPhyMarkOps++
	}
	delete(c.Marks, id)
	if tomb >= 0 && len(m.TombstonesOf(cn, id)) > 1 {
		c.PartialRevives++
	}
	if tomb >= 0 {
		if e := c.Stored[tomb]; e != nil {
			delete(c.Stored, tomb)
			delete(c.Marks, tomb)
		}
	}
}

// Counters per container as the statements define them.
type Counters struct {
	Phy, Root, TS, Lock, Link uint64
	ObjectsNumber, StorageSize uint64
}

// Recount returns the per-container counters that follow from the model.
func (m *M1) Recount(cn int) Counters {
	var r Counters
	c := m.C[cn]
	if c.Removed {
		return r
	}
	for id, e := range c.Stored {
		if e.Phy {
			r.Phy++
			if !m.markedAny(cn, id) {
				r.ObjectsNumber++
				r.StorageSize += uint64(len(m.U.Payload(e.S)))
			}
		}
		switch e.S.Kind {
		case KReg:
			// root = a regular object that is not a part of anything (no split relations)
			if e.S.Parent < 0 && !e.S.NoIDPa && e.S.First < 0 && e.S.Split < 0 {
				r.Root++
			}
		case KTomb:
			r.TS++
		case KLock:
			r.Lock++
		case KLink:
			r.Link++
		}
	}
	return r
}

// markedAny: tombstoned or carrying any garbage mark (default or redundant).
func (m *M1) markedAny(cn, id int) bool {
	return m.Tombstoned(cn, id) || m.C[cn].Marks[id] != MarkNone
}

// Describe renders the model state (for violation messages).
func (m *M1) Describe() string {
	out := fmt.Sprintf("epoch=%d", m.Epoch)
	for cn, c := range m.C {
		out += fmt.Sprintf("\n  c%d removed=%v:", cn, c.Removed)
		for _, k := range c.ids() {
			e := c.Stored[k]
			out += fmt.Sprintf("\n    [%s phy=%v mark=%d]", e.S, e.Phy, c.Marks[k])
		}
		var mk []int
		for k := range c.Marks {
			if c.Stored[k] == nil {
				mk = append(mk, k)
			}
		}
		sort.Ints(mk)
		for _, k := range mk {
			out += fmt.Sprintf("\n    [o%d not stored, mark=%d]", k, c.Marks[k])
		}
	}
	return out
}

// Facts renders the model predicates that decide the status of an address; it is part of
// violation signatures so that different failures of one property stay distinguishable.
func (m *M1) Facts(cn, id int) string {
	c := m.C[cn]
	e := c.Stored[id]
	b := func(x bool) int {
		if x {
			return 1
		}
		return 0
	}
	locks, dead := 0, 0
	for lid, l := range c.Stored {
		if l.S.Kind == KLock && l.S.Target == id {
			locks++
			if m.expiredSpec(l.S) || m.markedForRemoval(cn, lid) {
				dead++
			}
		}
	}
	kind := "-"
	if e != nil {
		kind = e.S.Kind.String()
		if !e.Phy {
			kind += "(virtual)"
		}
	}
	par := ""
	if e != nil {
		if p, weak := m.parentOf(cn, id); p >= 0 {
			par = fmt.Sprintf(" parent[weak=%d %s]", b(weak), m.Facts(cn, p))
		}
	}
	return fmt.Sprintf("kind=%s cnrRemoved=%d expired=%d tombstoned=%d mark=%d locks=%d deadLocks=%d%s", kind, b(c.Removed),
		b(e != nil && m.expiredSpec(e.S)), b(m.Tombstoned(cn, id)), c.Marks[id], locks, dead, par)
}

// NonPhyMarks counts garbage marks (of any kind) on ids that are not stored physical objects.
func (m *M1) NonPhyMarks(cn int) int {
	n := 0
	for id, mk := range m.C[cn].Marks {
		if mk == MarkNone {
			continue
		}
		if e := m.C[cn].Stored[id]; e == nil || !e.Phy {
			n++
		}
	}
	return n
}
