package container

// C37: the inner ring approves container changes only when the owner authorised them.
// Real container processor (handlers, worker pool, check*/verify*/validateEACL, internal/crypto,
// typed container client, notary-event parsers) over a simulated FS chain (cnrChain).

import (
	"bytes"
	"crypto/sha256"
	"fmt"
	"math/big"
	"sort"
	"strings"
	"testing"
	"testing/synctest"
	"time"

	"github.com/google/uuid"
	"github.com/nspcc-dev/neo-go/pkg/core/transaction"
	"github.com/nspcc-dev/neo-go/pkg/network/payload"
	"github.com/nspcc-dev/neo-go/pkg/smartcontract"
	"github.com/nspcc-dev/neo-go/pkg/smartcontract/scparser"
	"github.com/nspcc-dev/neo-go/pkg/util"
	"github.com/nspcc-dev/neo-go/pkg/vm/opcode"
	containerrpc "github.com/nspcc-dev/neofs-contract/rpc/container"
	"github.com/nspcc-dev/neofs-node/pkg/morph/client"
	cntClient "github.com/nspcc-dev/neofs-node/pkg/morph/client/container"
	"github.com/nspcc-dev/neofs-node/pkg/morph/event"
	containerEvent "github.com/nspcc-dev/neofs-node/pkg/morph/event/container"
	sdkclient "github.com/nspcc-dev/neofs-sdk-go/client"
	"github.com/nspcc-dev/neofs-sdk-go/container"
	cid "github.com/nspcc-dev/neofs-sdk-go/container/id"
	neofscrypto "github.com/nspcc-dev/neofs-sdk-go/crypto"
	neofsecdsa "github.com/nspcc-dev/neofs-sdk-go/crypto/ecdsa"
	"github.com/nspcc-dev/neofs-sdk-go/eacl"
	"github.com/nspcc-dev/neofs-sdk-go/netmap"
	protocontainer "github.com/nspcc-dev/neofs-sdk-go/proto/container"
	protorefs "github.com/nspcc-dev/neofs-sdk-go/proto/refs"
	"github.com/nspcc-dev/neofs-sdk-go/session"
	sessionv2 "github.com/nspcc-dev/neofs-sdk-go/session/v2"
	"github.com/nspcc-dev/neofs-sdk-go/user"
	"go.uber.org/zap"
	"go.uber.org/zap/zaptest/observer"
	"google.golang.org/protobuf/proto"
	"verif/simkit"
)

func TestVerif(t *testing.T) {
	simkit.Main(t, &simkit.Property{
		ID: "C37", Level: "exploration", Bubble: true, TapeLimit: 4000,
		Rule: "each run = one container processor (EC allowed or not, chain-metadata on/off, pool size 1-3, contract read flavour getInfo/getContainerData/get) over a simulated FS chain holding 1-3 containers, and a history of 5-30 notary requests of every kind the processor registers (put, putNamed, create, createV2 with/without eACL, delete, remove, setEACL, putEACL, setAttribute, removeAttribute) parsed by the real parsers from real call scripts; each request carries a direct RFC6979 signature, an N3 witness, a v1 container session or a v2 session token (delegation chains, NNS subjects), valid or with 1-2 planted defects (foreign key, other bytes, corrupted, issuer/verb/container/subject/lifetime wrong around the moving epoch and chain time, forbidden system attribute, invalid or EC policy, final basic ACL, system-role eACL target, missing container, expired request); epoch, chain time, wall time, alphabet membership and chain read failures change between requests; requests are delivered through the exported handlers (worker pool, also in bursts and duplicated) or straight to process*; 65% of the runs do not plant the request shapes of the open findings F-CNR-1..4 so that their histories run to the end; distinct = trace digest; non-trivial = >=1 approval and >=1 refusal of a defective request in the run",
		Run:  runC37,
		Assumptions: []string{
			"the chain model executes N3 witnesses like neo-go's invokecontainedscript (entry script = invocation+verification script, container = fake transaction, CheckSig against container hash); nothing else binds the script to the signer account",
			"request lifetime / token lifetime boundaries are judged with second (chain time) and epoch granularity; sub-second positions are left open",
			"a creation token bound (v1) to another container, REP+EC mixes, policies not satisfiable on the current netmap, name/zone argument mismatches, the chain-metadata attribute while metadata is off, extra eACL filter/comment validation and attribute-change requests for system attributes are left open (either outcome accepted)",
		},
		Components: map[string]string{
			"container.Processor (handlers, pool, process*/check*/approve*, verifySignature, verifySessionV2, checkTokenLifetime, validateEACL)": "real",
			"internal/crypto (AuthenticateContainerRequest, AuthenticateToken, AuthenticateTokenV2, N3 script runs)":                        "real",
			"pkg/morph/event/container parsers, pkg/morph/client/container typed reads, core/nns resolver, SDK tokens/containers/eACL":        "real",
			"FS chain (container contract state, NNS records, witness execution, notary service)":                                          "simulated: cnrChain behind the wrapped morph client; witness scripts run in the real neo-go VM with simulated CheckSig/CheckWitness",
			"epoch, chain time, wall clock, alphabet membership, netmap": "simulated, moved by the tape",
			"notary request preparator / listener":                      "not part of this check (C34): call scripts are parsed with neo-go scparser and fed to the registered parsers",
		},
	})
}

// ---- kinds -------------------------------------------------------------------------------

const (
	kPut = iota
	kPutNamed
	kCreate
	kCreateV2
	kDelete
	kRemove
	kSetEACL
	kPutEACL
	kSetAttr
	kRmAttr
	numKinds
)

var kindMethod = [numKinds]string{"put", "putNamed", "create", "createV2", "delete", "remove", "setEACL", "putEACL", "setAttribute", "removeAttribute"}

const (
	opPut = iota
	opDelete
	opEACL
	opSetAttr
	opRmAttr
)

var opName = []string{"put", "delete", "eacl", "set-attribute", "remove-attribute"}

func opOf(kind int) int {
	switch {
	case kind <= kCreateV2:
		return opPut
	case kind <= kRemove:
		return opDelete
	case kind <= kPutEACL:
		return opEACL
	case kind == kSetAttr:
		return opSetAttr
	}
	return opRmAttr
}

var v1Verbs = []session.ContainerVerb{session.VerbContainerPut, session.VerbContainerDelete, session.VerbContainerSetEACL, session.VerbContainerSetAttribute, session.VerbContainerRemoveAttribute}
var v2Verbs = []sessionv2.Verb{sessionv2.VerbContainerPut, sessionv2.VerbContainerDelete, sessionv2.VerbContainerSetEACL, sessionv2.VerbContainerSetAttribute, sessionv2.VerbContainerRemoveAttribute}

// ---- tri-state ---------------------------------------------------------------------------

type tri int

const (
	no tri = iota
	yes
	maybe
)

func b2t(b bool) tri {
	if b {
		return yes
	}
	return no
}

// ---- specs -------------------------------------------------------------------------------

type subjSpec struct {
	key int    // user of this key, or
	nns string // members of this NNS name
}

type ctxSpec struct {
	cnr   int // 0 any, 1 the request's container, 2 another container
	verbs []int
}

type tokSpec struct {
	v2        bool
	garbage   bool
	issuer    int // claimed issuer
	signer    int // key that really signed
	scheme    int // 0 RFC6979, 1 SHA512, 2 WalletConnect, 3 N3
	sigDefect int // 0 none, 1 corrupted, 2 missing
	// v1
	verb    int // op index of the token's verb
	bind    int // 0 any, 1 request's container, 2 another
	sessKey int
	life    [3]uint64 // iat, nbf, exp (epochs)
	// v2
	lifeT    [3]time.Time
	subjects []subjSpec
	ctxs     []ctxSpec
	final    bool
	origin   *tokSpec
}

type authSpec struct {
	mode      int // 0 direct RFC6979, 1 direct N3 witness, 2 v1 session, 3 v2 session
	reqN3     bool
	reqSigner int
	reqClaim  int // whose public key / verification script is presented; -1 none
	reqDefect int // 0 none, 1 other bytes, 2 corrupted, 3 empty, 4 N3 "push true" without verification script
	tok       *tokSpec
}

type cnrSpec struct {
	owner       int
	nonce       byte
	acl         uint32
	attrs       [][2]string
	policy      int
	garbage     bool
	nameArg     string
	zoneArg     string
	namedArgs   bool
	undecodable bool
	bin         []byte
	msg         *protocontainer.Container
	id          cid.ID
}

type eaclSpec struct {
	cnrSel    int // 1 the target, 2 another container, 0 no container id
	sysRole   bool
	oddFilter bool
	garbage   bool
}

type attrSpec struct {
	name, value string
	validUntil  int64
}

type wCnr struct {
	id     cid.ID
	cnr    container.Container
	owner  int
	exists bool
}

type evSpec struct {
	kind     int
	cnr      *cnrSpec
	target   int // index into world.cnrs, -1 = never existed
	targetID cid.ID
	badID    bool
	eacl     *eaclSpec
	eaclAuth *authSpec
	attr     *attrSpec
	auth     authSpec
	metaArg  bool

	txHash util.Uint256
	ev     event.Event
	desc   string
}

// ---- policies ----------------------------------------------------------------------------

const (
	polOK = iota
	polInvalid
	polEC
	polMix
	polBig // valid but needs more nodes than small netmaps have
)

type polEntry struct {
	name  string
	class int
	build func() netmap.PlacementPolicy
}

func polFromString(s string) func() netmap.PlacementPolicy {
	return func() netmap.PlacementPolicy {
		var p netmap.PlacementPolicy
		if err := p.DecodeString(s); err != nil {
			panic(fmt.Sprintf("policy %q: %v", s, err))
		}
		return p
	}
}

var policies = []polEntry{
	{"REP 1", polOK, polFromString("REP 1")},
	{"REP 2 IN X CBF 1 SELECT 2 FROM * AS X", polOK, polFromString("REP 2 IN X CBF 1 SELECT 2 FROM * AS X")},
	{"REP 1 REP 1", polOK, polFromString("REP 1 REP 1")},
	{"REP 4 CBF 2", polBig, polFromString("REP 4 CBF 2")},
	{"EC 2/1", polEC, func() netmap.PlacementPolicy {
		var p netmap.PlacementPolicy
		p.SetECRules([]netmap.ECRule{netmap.NewECRule(2, 1)})
		return p
	}},
	{"REP 1 + EC 2/1", polMix, func() netmap.PlacementPolicy {
		p := polFromString("REP 1")()
		p.SetECRules([]netmap.ECRule{netmap.NewECRule(2, 1)})
		return p
	}},
	{"REP 1 IN MISSING", polInvalid, func() netmap.PlacementPolicy {
		var p netmap.PlacementPolicy
		var rd netmap.ReplicaDescriptor
		rd.SetNumberOfObjects(1)
		rd.SetSelectorName("MISSING")
		p.SetReplicas([]netmap.ReplicaDescriptor{rd})
		return p
	}},
	{"REP 200", polInvalid, func() netmap.PlacementPolicy {
		var p netmap.PlacementPolicy
		var rd netmap.ReplicaDescriptor
		rd.SetNumberOfObjects(200)
		p.SetReplicas([]netmap.ReplicaDescriptor{rd})
		return p
	}},
	{"EC 2/1 IN MISSING", polInvalid, func() netmap.PlacementPolicy {
		var p netmap.PlacementPolicy
		e := netmap.NewECRule(2, 1)
		e.SetSelectorName("MISSING")
		p.SetECRules([]netmap.ECRule{e})
		return p
	}},
}

// ---- world -------------------------------------------------------------------------------

type world struct {
	r           *simkit.R
	ch          *cnrChain
	cp          *Processor
	alpha       bool
	allowEC     bool
	metaEnabled bool
	poolSize    int
	cnrs        []*wCnr
	handlers    map[string]event.Handler
	seq         uint32
	nnsName     string
	nnsMembers  map[int]bool
	nodeLog     func() string
	avoidKnown  bool // this run does not plant the request shapes of the open findings F-CNR-1..4
}

func (w *world) otherID() cid.ID {
	var id cid.ID
	for i := range id {
		id[i] = 0xEE
	}
	return id
}

func fixedUUID(b byte) uuid.UUID {
	var u uuid.UUID
	for i := range u {
		u[i] = b + byte(i)
	}
	u[6] = (u[6] & 0x0f) | 0x40
	u[8] = (u[8] & 0x3f) | 0x80
	return u
}

func schemeSigner(scheme, key int) neofscrypto.Signer {
	k := simKey(key).PrivateKey
	switch scheme {
	case 1:
		return neofsecdsa.Signer(k)
	case 2:
		return neofsecdsa.SignerWalletConnect(k)
	}
	return neofsecdsa.SignerRFC6979(k)
}

func corruptSig(s neofscrypto.Signature) neofscrypto.Signature {
	v := bytes.Clone(s.Value())
	if len(v) > 7 {
		v[7] ^= 0x10
	}
	return neofscrypto.NewSignatureFromRawKey(s.Scheme(), s.PublicKeyBytes(), v)
}

func (w *world) cidOf(sel int, target cid.ID) cid.ID {
	switch sel {
	case 1:
		return target
	case 2:
		return w.otherID()
	}
	return cid.ID{}
}

func (w *world) buildV1(t *tokSpec, target cid.ID) []byte {
	if t.garbage {
		return []byte{0xff, 0x01, 0x02, 0x03}
	}
	var tok session.Container
	tok.SetID(fixedUUID(byte(t.sessKey)))
	pk := neofsecdsa.PublicKey(simKey(t.sessKey).PrivateKey.PublicKey)
	tok.SetAuthKey(&pk)
	tok.ForVerb(v1Verbs[t.verb])
	if t.bind != 0 {
		tok.ApplyOnlyTo(w.cidOf(t.bind, target))
	}
	tok.SetIat(t.life[0])
	tok.SetNbf(t.life[1])
	tok.SetExp(t.life[2])
	switch {
	case t.sigDefect == 2:
		tok.SetIssuer(simUser(t.issuer))
	case t.scheme == 3:
		tok.SetIssuer(simUser(t.issuer))
		invoc, verif := n3Witness(t.signer, t.signer, tok.SignedData(), t.sigDefect == 1)
		tok.AttachSignature(neofscrypto.NewN3Signature(invoc, verif))
	default:
		if err := tok.Sign(user.NewSigner(schemeSigner(t.scheme, t.signer), simUser(t.issuer))); err != nil {
			panic(err)
		}
		if t.sigDefect == 1 {
			s, _ := tok.Signature()
			tok.AttachSignature(corruptSig(s))
		}
	}
	return tok.Marshal()
}

func (w *world) buildV2(t *tokSpec, target cid.ID) sessionv2.Token {
	var tok sessionv2.Token
	tok.SetVersion(sessionv2.TokenCurrentVersion)
	tok.SetIat(t.lifeT[0])
	tok.SetNbf(t.lifeT[1])
	tok.SetExp(t.lifeT[2])
	var subs []sessionv2.Target
	for _, s := range t.subjects {
		if s.nns != "" {
			subs = append(subs, sessionv2.NewTargetNamed(s.nns))
		} else {
			subs = append(subs, sessionv2.NewTargetUser(simUser(s.key)))
		}
	}
	if err := tok.SetSubjects(subs); err != nil {
		panic(err)
	}
	var ctxs []sessionv2.Context
	for _, c := range t.ctxs {
		var vs []sessionv2.Verb
		for _, v := range c.verbs {
			vs = append(vs, sessionv2.Verb(v))
		}
		cx, err := sessionv2.NewContext(w.cidOf(c.cnr, target), vs)
		if err != nil {
			panic(err)
		}
		ctxs = append(ctxs, cx)
	}
	sort.SliceStable(ctxs, func(i, j int) bool {
		a, b := ctxs[i].Container(), ctxs[j].Container()
		return bytes.Compare(a[:], b[:]) < 0
	})
	if err := tok.SetContexts(ctxs); err != nil {
		panic(err)
	}
	tok.SetFinal(t.final)
	if t.origin != nil {
		o := w.buildV2(t.origin, target)
		tok.SetOrigin(&o)
	}
	switch {
	case t.sigDefect == 2:
		tok.SetIssuer(simUser(t.issuer))
	case t.scheme == 3:
		tok.SetIssuer(simUser(t.issuer))
		invoc, verif := n3Witness(t.signer, t.signer, tok.SignedData(), t.sigDefect == 1)
		tok.AttachSignature(neofscrypto.NewN3Signature(invoc, verif))
	default:
		if err := tok.Sign(user.NewSigner(schemeSigner(t.scheme, t.signer), simUser(t.issuer))); err != nil {
			panic(err)
		}
		if t.sigDefect == 1 {
			s, _ := tok.Signature()
			tok.AttachSignature(corruptSig(s))
		}
	}
	return tok
}

func (w *world) buildToken(a *authSpec, target cid.ID) []byte {
	if a.tok == nil {
		return nil
	}
	if !a.tok.v2 {
		return w.buildV1(a.tok, target)
	}
	if a.tok.garbage {
		return []byte{0xff, 0x01, 0x02, 0x03}
	}
	tok := w.buildV2(a.tok, target)
	return tok.Marshal()
}

// buildReqSig returns the invocation and verification scripts of the request.
func buildReqSig(a *authSpec, data []byte) (invoc, verif []byte) {
	payload := data
	if a.reqDefect == 1 {
		payload = append(bytes.Clone(data), 0x01)
	}
	if a.mode == 1 || a.reqN3 {
		if a.reqDefect == 4 {
			return []byte{byte(opcode.PUSHT)}, nil
		}
		claim := a.reqClaim
		if claim < 0 {
			claim = a.reqSigner
		}
		invoc, verif = n3Witness(a.reqSigner, claim, payload, a.reqDefect == 2)
		if a.reqDefect == 3 {
			invoc = nil
		}
		return invoc, verif
	}
	sig, err := neofsecdsa.SignerRFC6979(simKey(a.reqSigner).PrivateKey).Sign(payload)
	if err != nil {
		panic(err)
	}
	switch a.reqDefect {
	case 2:
		sig[9] ^= 0x04
	case 3:
		sig = nil
	}
	if a.reqClaim >= 0 {
		verif = simKey(a.reqClaim).PublicKey().Bytes()
	}
	return sig, verif
}

// ---- generation --------------------------------------------------------------------------

const nKeys = 4 // users k0..k3

func otherKey(r *simkit.R, k int) int { return (k + 1 + r.Intn(nKeys-1)) % nKeys }

func (w *world) genDirect(a *authSpec, owner int) {
	r := w.r
	a.reqSigner, a.reqClaim = owner, owner
	if a.mode == 0 {
		switch r.Weighted(50, 10, 10, 10, 10, 5, 5) {
		case 1: // foreign key signs and presents its own key
			a.reqSigner = otherKey(r, owner)
			a.reqClaim = a.reqSigner
		case 2: // foreign key signs, owner's key presented
			a.reqSigner = otherKey(r, owner)
		case 3:
			a.reqDefect = 1
		case 4:
			a.reqDefect = 2
		case 5:
			a.reqDefect = 3
		case 6: // owner signs, foreign key presented
			a.reqClaim = otherKey(r, owner)
		}
		return
	}
	d := r.Weighted(50, 10, 10, 10, 10, 10)
	if w.avoidKnown && (d == 1 || d == 4) {
		d++ // F-CNR-1 shapes are not planted in this run
	}
	switch d {
	case 1: // a complete valid witness of somebody else
		a.reqSigner = otherKey(r, owner)
		a.reqClaim = a.reqSigner
	case 2:
		a.reqSigner = otherKey(r, owner)
	case 3:
		a.reqDefect = 2
	case 4:
		a.reqDefect = 4
	case 5:
		a.reqDefect = 1
	}
}

func (w *world) genReqForToken(a *authSpec, by int) {
	r := w.r
	a.reqSigner, a.reqClaim = by, by
	d := r.Weighted(70, 10, 8, 6, 6)
	if w.avoidKnown && a.tok.v2 {
		d = 0 // F-CNR-2 shapes are not planted in this run
	}
	switch d {
	case 1:
		a.reqSigner = otherKey(r, by)
		if a.tok.v2 {
			a.reqClaim = a.reqSigner
		}
	case 2:
		a.reqDefect = 1
	case 3:
		a.reqDefect = 2
	case 4:
		a.reqDefect = 3
	}
}

func (w *world) genTokCommon(t *tokSpec, issuer int) {
	r := w.r
	t.issuer, t.signer = issuer, issuer
	t.scheme = r.Weighted(40, 20, 20, 20)
	switch r.Weighted(70, 8, 8, 7, 7) {
	case 1: // honestly issued by somebody else
		t.issuer = otherKey(r, issuer)
		t.signer = t.issuer
	case 2: // claims the issuer but is signed by another key
		t.signer = otherKey(r, issuer)
		if w.avoidKnown && t.scheme == 3 {
			t.scheme = 0 // F-CNR-1
		}
	case 3:
		t.sigDefect = 1
	case 4:
		t.sigDefect = 2
	}
}

func (w *world) genV1(a *authSpec, owner, op int) {
	r := w.r
	t := &tokSpec{}
	a.tok = t
	if r.Bool(3) {
		t.garbage = true
	}
	w.genTokCommon(t, owner)
	t.verb = op
	if r.Bool(12) {
		t.verb = (op + 1 + r.Intn(4)) % 5
	}
	t.bind = r.Weighted(50, 30, 20)
	e := int64(w.ch.epoch)
	t.life[0] = uint64(e + []int64{-1, 0, 1, -2}[r.Weighted(60, 20, 12, 8)])
	t.life[1] = uint64(e + []int64{-1, 0, 1, -2}[r.Weighted(60, 20, 12, 8)])
	t.life[2] = uint64(e + []int64{1, 0, -1, 50}[r.Weighted(50, 25, 15, 10)])
	t.sessKey = 10 + r.Intn(3)
	w.genReqForToken(a, t.sessKey)
}

func (w *world) genLifeT(t *tokSpec, base time.Time) {
	r := w.r
	offs := []time.Duration{-time.Hour, 0, time.Second, -time.Second}
	t.lifeT[0] = base.Add(offs[r.Weighted(55, 20, 13, 12)])
	t.lifeT[1] = base.Add(offs[r.Weighted(55, 20, 13, 12)])
	t.lifeT[2] = base.Add([]time.Duration{time.Hour, 0, -time.Second, time.Second}[r.Weighted(50, 20, 15, 15)])
}

func sortedVerbs(m map[int]bool) []int {
	var vs []int
	for v := range m {
		vs = append(vs, v)
	}
	sort.Ints(vs)
	return vs
}

func (w *world) genCtxs(need int, isPut bool) []ctxSpec {
	r := w.r
	nv := int(v2Verbs[need])
	verbs := map[int]bool{nv: true}
	if r.Bool(30) {
		verbs[int(v2Verbs[(need+1+r.Intn(4))%5])] = true
	}
	if r.Bool(20) {
		verbs[int(sessionv2.VerbObjectGet)] = true
	}
	sel := r.Weighted(45, 35, 20) // any, target, other
	d := r.Weighted(70, 15, 15)
	if w.avoidKnown && isPut {
		d = 0 // F-CNR-3 shapes are not planted in this run
		if sel == 2 {
			sel = 1
		}
	}
	switch d {
	case 1: // the needed verb is missing
		delete(verbs, nv)
		if len(verbs) == 0 {
			verbs[int(sessionv2.VerbObjectPut)] = true
		}
		return []ctxSpec{{cnr: sel, verbs: sortedVerbs(verbs)}}
	case 2: // two contexts: the needed verb only for another container
		if sel == 2 {
			sel = 1
		}
		return []ctxSpec{{cnr: 2, verbs: []int{nv}}, {cnr: sel, verbs: []int{int(sessionv2.VerbObjectGet)}}}
	}
	return []ctxSpec{{cnr: sel, verbs: sortedVerbs(verbs)}}
}

func (w *world) genV2(a *authSpec, owner, op int, isPut, legacyDelete bool) {
	r := w.r
	t := &tokSpec{v2: true}
	a.tok = t
	if r.Bool(3) {
		t.garbage = true
	}
	actor := 10 + r.Intn(3) // the party acting for the owner
	base := w.ch.chainTime.Truncate(time.Second)
	if r.Bool(25) {
		// delegation: owner -> delegate -> user
		delegate := 20 + r.Intn(2)
		o := &tokSpec{v2: true}
		w.genTokCommon(o, owner)
		w.genLifeT(o, base)
		o.ctxs = w.genCtxs(op, isPut)
		o.subjects = []subjSpec{{key: delegate}}
		if r.Bool(15) {
			o.subjects = []subjSpec{{key: 22}}
		}
		if r.Bool(25) {
			o.subjects = []subjSpec{{nns: w.nnsName}}
			if r.Bool(50) {
				delegate = 23 // a member of the NNS name (if the run registered it)
			}
		}
		o.final = r.Bool(10)
		t.origin = o
		w.genTokCommon(t, delegate)
		if r.Bool(70) {
			t.lifeT = o.lifeT
		} else {
			w.genLifeT(t, base)
		}
		if r.Bool(75) {
			t.ctxs = o.ctxs
		} else {
			t.ctxs = w.genCtxs(op, isPut)
		}
	} else {
		w.genTokCommon(t, owner)
		w.genLifeT(t, base)
		t.ctxs = w.genCtxs(op, isPut)
	}
	t.subjects = []subjSpec{{key: actor}}
	sd := r.Weighted(60, 15, 15, 10)
	if w.avoidKnown && sd == 3 {
		sd = 0 // F-CNR-2
	}
	switch sd {
	case 1:
		t.subjects = []subjSpec{{key: 13}, {key: actor}}
	case 2:
		t.subjects = []subjSpec{{nns: w.nnsName}}
		if r.Bool(60) || w.avoidKnown {
			actor = 23
		}
		if w.avoidKnown && !w.nnsMembers[23] {
			t.subjects = []subjSpec{{key: actor}}
		}
	case 3:
		t.subjects = []subjSpec{{key: 13}}
	}
	t.final = r.Bool(20)
	a.reqN3 = r.Bool(25) || legacyDelete // a legacy delete has no verification-script argument: only a witness can name the signer
	w.genReqForToken(a, actor)
}

func (w *world) genAuth(owner, op int, isPut, legacyDelete bool) authSpec {
	r := w.r
	var a authSpec
	a.reqClaim = -1
	a.mode = r.Weighted(35, 15, 25, 25)
	if legacyDelete && a.mode == 0 {
		a.mode = 1
	}
	switch a.mode {
	case 0, 1:
		w.genDirect(&a, owner)
	case 2:
		w.genV1(&a, owner, op)
	case 3:
		w.genV2(&a, owner, op, isPut, legacyDelete)
	}
	return a
}

var attrPool = [][2]string{
	{"Name", "box"}, {"Timestamp", "1700000000"}, {"__neofs__lower", "x"}, {"Color", "red"},
}
var sysAttrOK = [][2]string{{"__NEOFS__NAME", "box"}, {"__NEOFS__ZONE", "container"}, {"__NEOFS__LOCK_UNTIL", "4102444800"}}
var sysAttrBad = [][2]string{{"__NEOFS__FOO", "1"}, {"__NEOFS__NAMEX", "a"}, {"__NEOFS__", "a"}, {"__NEOFS__SUBNET", "7"}}
var sysAttrOpen = [][2]string{{"__NEOFS__DISABLE_HOMOMORPHIC_HASHING", "true"}}

func (w *world) genCnr(kind int) *cnrSpec {
	r := w.r
	c := &cnrSpec{}
	c.owner = r.Intn(nKeys)
	w.seq++
	c.nonce = byte(w.seq)
	c.acl = []uint32{0x0FBFBFFF, 0x1FBFBFFF, 0x0C8C8CCC, 0x1C8C8CCC}[r.Intn(4)]
	for i, n := 0, r.Intn(3); i < n; i++ {
		c.attrs = append(c.attrs, attrPool[r.Intn(len(attrPool))])
	}
	switch r.Weighted(60, 15, 15, 5, 5) {
	case 1:
		c.attrs = append(c.attrs, sysAttrOK[0], sysAttrOK[1])
		if r.Bool(40) {
			c.attrs = append(c.attrs, sysAttrOK[2])
		}
	case 2:
		c.attrs = append(c.attrs, sysAttrBad[r.Intn(len(sysAttrBad))])
	case 3:
		c.attrs = append(c.attrs, sysAttrOpen[0])
	case 4:
		c.attrs = append(c.attrs, [2]string{"__NEOFS__METAINFO_CONSISTENCY", []string{"strict", "optimistic", "bogus"}[r.Intn(3)]})
	}
	if kind == kCreateV2 && len(c.attrs) == 0 && w.avoidKnown {
		c.attrs = append(c.attrs, attrPool[0]) // F-CNR-4
	}
	c.policy = r.Weighted(30, 15, 10, 8, 12, 7, 6, 6, 6)
	if kind != kCreateV2 && r.Bool(3) {
		c.garbage = true
	}
	// dedupe attribute keys (a container cannot carry a key twice)
	seen := map[string]bool{}
	var as [][2]string
	for _, a := range c.attrs {
		if !seen[a[0]] {
			seen[a[0]] = true
			as = append(as, a)
		}
	}
	c.attrs = as
	if kind == kPutNamed || kind == kCreate {
		name, zone := "", ""
		for _, a := range c.attrs {
			if a[0] == "__NEOFS__NAME" {
				name = a[1]
			}
			if a[0] == "__NEOFS__ZONE" {
				zone = a[1]
			}
		}
		c.nameArg, c.zoneArg = name, zone
		if name != "" && zone == "" {
			c.zoneArg = "container"
		}
		if r.Bool(12) {
			c.nameArg = "other"
			if c.zoneArg == "" {
				c.zoneArg = "container"
			}
		}
	}
	w.materialize(c)
	return c
}

func (w *world) materialize(c *cnrSpec) {
	pol := policies[c.policy].build()
	m := &protocontainer.Container{
		Version:         &protorefs.Version{Major: 2, Minor: 18},
		OwnerId:         &protorefs.OwnerID{Value: func() []byte { u := simUser(c.owner); return u[:] }()},
		Nonce:           bytes.Repeat([]byte{c.nonce}, 16),
		BasicAcl:        c.acl,
		PlacementPolicy: pol.ProtoMessage(),
	}
	m.Nonce[6] = (m.Nonce[6] & 0x0f) | 0x40
	m.Nonce[8] = (m.Nonce[8] & 0x3f) | 0x80
	for _, a := range c.attrs {
		m.Attributes = append(m.Attributes, &protocontainer.Container_Attribute{Key: a[0], Value: a[1]})
	}
	c.msg = m
	var cnr container.Container
	if err := cnr.FromProtoMessage(m); err != nil {
		c.undecodable = true
		b, err2 := proto.MarshalOptions{Deterministic: true}.Marshal(m)
		if err2 != nil {
			panic(err2)
		}
		c.bin = b
	} else {
		c.bin = cnr.Marshal()
	}
	if c.garbage {
		c.bin = []byte{0x0a, 0xff, 0xff, 0x01}
		c.undecodable = true
	}
	c.id = cid.NewFromMarshalledContainer(c.bin)
}

func (w *world) genEACL(forCreate bool) *eaclSpec {
	r := w.r
	e := &eaclSpec{cnrSel: 1}
	switch r.Weighted(60, 15, 8, 7, 5, 5) {
	case 1:
		e.sysRole = true
	case 2:
		e.cnrSel = 2
	case 3:
		e.cnrSel = 0
	case 4:
		e.oddFilter = true
	case 5:
		e.garbage = true
	}
	if !forCreate && e.cnrSel == 2 {
		e.cnrSel = 1 // for plain eACL requests the table's container IS the target; "other" is expressed by the target choice
	}
	return e
}

func (w *world) buildEACL(e *eaclSpec, target cid.ID) []byte {
	if e.garbage {
		return []byte{0x0a, 0xff, 0xff, 0x01}
	}
	role := eacl.RoleOthers
	if e.sysRole {
		role = eacl.RoleSystem
	}
	var fs []eacl.Filter
	if e.oddFilter {
		fs = append(fs, eacl.NewObjectPropertyFilter("size", eacl.MatchNumGT, "not-a-number"))
	}
	recs := []eacl.Record{
		eacl.ConstructRecord(eacl.ActionAllow, eacl.OperationGet, []eacl.Target{eacl.NewTargetByRole(eacl.RoleUser)}),
		eacl.ConstructRecord(eacl.ActionDeny, eacl.OperationPut, []eacl.Target{eacl.NewTargetByRole(role)}, fs...),
	}
	var t eacl.Table
	if id := w.cidOf(e.cnrSel, target); !id.IsZero() {
		t = eacl.NewTableForContainer(id, recs)
	} else {
		t = eacl.ConstructTable(recs)
	}
	return t.Marshal()
}

func (w *world) genEvent() *evSpec {
	r := w.r
	s := &evSpec{target: -1}
	s.kind = r.Intn(numKinds)
	op := opOf(s.kind)
	if op == opPut {
		s.cnr = w.genCnr(s.kind)
		s.targetID = s.cnr.id
		s.metaArg = r.Bool(30)
		s.auth = w.genAuth(s.cnr.owner, opPut, true, false)
		if s.kind == kCreateV2 && r.Bool(40) {
			s.eacl = w.genEACL(true)
			ea := w.genAuth(s.cnr.owner, opEACL, false, false)
			s.eaclAuth = &ea
		}
		return s
	}
	// choose the target container
	owner := r.Intn(nKeys)
	if r.Bool(88) && len(w.cnrs) > 0 {
		s.target = r.Intn(len(w.cnrs))
		s.targetID = w.cnrs[s.target].id
		owner = w.cnrs[s.target].owner
	} else {
		for i := range s.targetID {
			s.targetID[i] = 0xD0 + byte(i%7)
		}
		if r.Bool(30) {
			s.badID = true
		}
	}
	switch op {
	case opEACL:
		s.eacl = w.genEACL(false)
	case opSetAttr, opRmAttr:
		now := time.Now().Unix()
		s.attr = &attrSpec{
			name:       []string{"CORS", "__NEOFS__LOCK_UNTIL", "Color", "__NEOFS__FOO"}[r.Weighted(40, 30, 20, 10)],
			value:      "v1",
			validUntil: now + []int64{3600, 1, 0, -1, -3600}[r.Weighted(50, 15, 15, 12, 8)],
		}
	}
	s.auth = w.genAuth(owner, op, false, s.kind == kDelete)
	return s
}

// ---- building the notary request and the event -------------------------------------------

type simNE struct {
	sh     util.Uint160
	typ    event.NotaryType
	params []scparser.PushedItem
	raw    *payload.P2PNotaryRequest
}

func (e simNE) ScriptHash() util.Uint160         { return e.sh }
func (e simNE) Type() event.NotaryType           { return e.typ }
func (e simNE) Params() []scparser.PushedItem    { return e.params }
func (e simNE) Raw() *payload.P2PNotaryRequest   { return e.raw }

func signedDataOf(s *evSpec) []byte {
	switch opOf(s.kind) {
	case opPut:
		return s.cnr.bin
	case opDelete:
		return s.targetID[:]
	case opSetAttr:
		return sdkclient.GetSignedSetContainerAttributeParameters(sdkclient.SetContainerAttributeParameters{
			ID: s.targetID, Attribute: s.attr.name, Value: s.attr.value, ValidUntil: time.Unix(s.attr.validUntil, 0)})
	case opRmAttr:
		return sdkclient.GetSignedRemoveContainerAttributeParameters(sdkclient.RemoveContainerAttributeParameters{
			ID: s.targetID, Attribute: s.attr.name, ValidUntil: time.Unix(s.attr.validUntil, 0)})
	}
	return nil
}

func (w *world) build(s *evSpec) error {
	var args [][]any
	var eaclBin []byte
	data := signedDataOf(s)
	if opOf(s.kind) == opEACL {
		eaclBin = w.buildEACL(s.eacl, s.targetID)
		data = eaclBin
	}
	invoc, verif := buildReqSig(&s.auth, data)
	tok := w.buildToken(&s.auth, s.targetID)
	idArg := s.targetID[:]
	if s.badID {
		idArg = idArg[:20]
	}
	switch s.kind {
	case kPut:
		args = append(args, []any{s.cnr.bin, invoc, verif, tok})
	case kPutNamed:
		a := []any{s.cnr.bin, invoc, verif, tok, s.cnr.nameArg, s.cnr.zoneArg}
		args = append(args, a)
	case kCreate:
		args = append(args, []any{s.cnr.bin, invoc, verif, tok, s.cnr.nameArg, s.cnr.zoneArg, s.metaArg})
	case kCreateV2:
		m := s.cnr.msg
		ci := &containerrpc.ContainerInfo{
			Version:       &containerrpc.ContainerAPIVersion{Major: big.NewInt(int64(m.Version.Major)), Minor: big.NewInt(int64(m.Version.Minor))},
			Owner:         simUser(s.cnr.owner).ScriptHash(),
			Nonce:         m.Nonce,
			BasicACL:      big.NewInt(int64(m.BasicAcl)),
			StoragePolicy: func() []byte { b, _ := proto.MarshalOptions{Deterministic: true}.Marshal(m.PlacementPolicy); return b }(),
		}
		if !s.cnr.undecodable {
			var cnr container.Container
			_ = cnr.FromProtoMessage(m)
			ci.StoragePolicy = cnr.PlacementPolicy().Marshal()
		}
		for _, a := range m.Attributes {
			ci.Attributes = append(ci.Attributes, &containerrpc.ContainerAttribute{Key: a.Key, Value: a.Value})
		}
		args = append(args, []any{ci, invoc, verif, tok})
		if s.eacl != nil {
			eb := w.buildEACL(s.eacl, s.cnr.id)
			ei, evf := buildReqSig(s.eaclAuth, eb)
			et := w.buildToken(s.eaclAuth, s.cnr.id)
			args = append(args, []any{eb, ei, evf, et})
		}
	case kDelete:
		iv := invoc
		if s.auth.mode == 1 || s.auth.reqN3 {
			iv = append(bytes.Clone(invoc), verif...)
		}
		args = append(args, []any{idArg, iv, tok})
	case kRemove:
		args = append(args, []any{idArg, invoc, verif, tok})
	case kSetEACL, kPutEACL:
		args = append(args, []any{eaclBin, invoc, verif, tok})
	case kSetAttr:
		args = append(args, []any{idArg, s.attr.name, s.attr.value, s.attr.validUntil, invoc, verif, tok})
	case kRmAttr:
		args = append(args, []any{idArg, s.attr.name, s.attr.validUntil, invoc, verif, tok})
	}
	b := smartcontract.NewBuilder()
	for i, a := range args {
		m := kindMethod[s.kind]
		if i == 1 {
			m = "putEACL"
		}
		b.InvokeMethod(w.ch.cnrHash, m, a...)
	}
	script, err := b.Script()
	if err != nil {
		return fmt.Errorf("script builder: %w", err)
	}
	w.seq++
	tx := transaction.New(script, 1_0000_0000)
	tx.Nonce = w.seq
	tx.ValidUntilBlock = 100000
	tx.Signers = []transaction.Signer{
		{Account: util.Uint160{0xA1}, Scopes: transaction.None},
		{Account: util.Uint160{0xA2}, Scopes: transaction.Global},
		{Account: util.Uint160{0xA3}, Scopes: transaction.None},
	}
	tx.Scripts = []transaction.Witness{{}, {}, {}}
	fb := transaction.New([]byte{byte(opcode.RET)}, 0)
	fb.Nonce = w.seq
	fb.Signers = []transaction.Signer{{Account: util.Uint160{0xA3}}, {Account: util.Uint160{0xB1}}}
	fb.Scripts = []transaction.Witness{{}, {}}
	nr := &payload.P2PNotaryRequest{MainTransaction: tx, FallbackTransaction: fb}
	s.txHash = tx.Hash()

	var calls []event.NotaryEvent
	ctx := scparser.NewContext(script, 0)
	for ctx.NextIP() < len(script) {
		sh, method, _, params, err := scparser.GetAppCallFromContext(ctx)
		if err != nil {
			return fmt.Errorf("script parser: %w", err)
		}
		calls = append(calls, simNE{sh: sh, typ: event.NotaryTypeFromString(method), params: params, raw: nr})
	}
	var ev event.Event
	one := func(p event.NotaryUnaryParser) {
		if len(calls) != 1 {
			err = fmt.Errorf("expected one call, got %d", len(calls))
			return
		}
		ev, err = p(calls[0])
	}
	switch s.kind {
	case kPut:
		one(containerEvent.ParsePutNotary)
	case kPutNamed:
		one(containerEvent.ParsePutNamedNotary)
	case kCreate:
		one(containerEvent.RestoreCreateContainerRequest)
	case kCreateV2:
		ev, err = containerEvent.RestoreCreateContainerV2Request(calls)
	case kDelete:
		one(containerEvent.ParseDeleteNotary)
	case kRemove:
		one(containerEvent.RestoreRemoveContainerRequest)
	case kSetEACL:
		one(containerEvent.ParseSetEACLNotary)
	case kPutEACL:
		one(containerEvent.RestorePutContainerEACLRequest)
	case kSetAttr:
		one(containerEvent.RestoreSetAttributeRequest)
	case kRmAttr:
		one(containerEvent.RestoreRemoveAttributeRequest)
	}
	if err != nil {
		return fmt.Errorf("event parser: %w", err)
	}
	s.ev = ev
	return nil
}

// ---- oracle ------------------------------------------------------------------------------
// Written from the statement: approval only if the owner authorised the operation (direct owner
// signature, or a valid unexpired session token issued by the owner for that verb and container
// and bound to the request's signer), the policy is valid, only permitted system attributes are
// present, eACL changes are allowed by the basic ACL and do not touch system roles.

type verdict struct {
	reasons []string // why approval is forbidden
	open    []string // why the "must approve" direction is not demanded
}

func (v *verdict) forbid(s string) { v.reasons = append(v.reasons, s) }
func (v *verdict) leave(s string)  { v.open = append(v.open, s) }

func (w *world) nnsHas(name string, key int) bool { return name == w.nnsName && w.nnsMembers[key] }

func lifeT(l [3]time.Time, now time.Time) tri {
	at := func(t time.Time) bool { return !t.Before(l[0]) && !t.Before(l[1]) && !t.After(l[2]) }
	lo := now.Truncate(time.Second)
	hi := lo
	if !now.Equal(lo) {
		hi = lo.Add(time.Second)
	}
	a, b := at(lo), at(hi)
	if a != b {
		return maybe
	}
	return b2t(a)
}

func ctxCovers(cs []ctxSpec, verb int, cnrSel func(int) bool) bool {
	for _, c := range cs {
		if !cnrSel(c.cnr) {
			continue
		}
		for _, v := range c.verbs {
			if v == verb {
				return true
			}
		}
	}
	return false
}

// directAccount evaluates the request signature as a plain signature and returns the key whose
// account stands behind it (-1 if the signature proves nothing).
func directAccount(a *authSpec) int {
	if a.reqDefect != 0 {
		return -1
	}
	if a.reqClaim < 0 || a.reqClaim != a.reqSigner {
		return -1
	}
	return a.reqSigner
}

func (w *world) judgeAuth(v *verdict, a *authSpec, owner, op int, isPut bool, pfx string) {
	ch := w.ch
	switch a.mode {
	case 0:
		acc := directAccount(a)
		if acc < 0 {
			v.forbid(pfx + "direct-signature-invalid")
		} else if acc != owner {
			v.forbid(pfx + "direct-signature-not-by-owner")
		}
	case 1:
		if ch.failScript {
			v.forbid(pfx + "witness-cannot-be-run")
		}
		switch {
		case a.reqDefect == 4:
			v.forbid(pfx + "n3-no-verification-script")
		case a.reqDefect != 0 || a.reqClaim != a.reqSigner:
			v.forbid(pfx + "n3-witness-invalid")
		case a.reqSigner != owner:
			v.forbid(pfx + "n3-witness-of-another-account")
		}
	case 2:
		t := a.tok
		if t.garbage {
			v.forbid(pfx + "token-undecodable")
			return
		}
		switch {
		case t.sigDefect != 0:
			v.forbid(pfx + "v1-token-signature-invalid")
		case t.signer != t.issuer && t.scheme == 3:
			v.forbid(pfx + "v1-token-n3-witness-of-another-account")
		case t.signer != t.issuer:
			v.forbid(pfx + "v1-token-signature-not-by-issuer")
		}
		if t.scheme == 3 && ch.failScript {
			v.forbid(pfx + "witness-cannot-be-run")
		}
		if t.issuer != owner {
			v.forbid(pfx + "v1-issuer-not-owner")
		}
		if t.verb != op {
			v.forbid(pfx + "v1-wrong-verb")
		}
		if t.bind == 2 {
			if isPut {
				v.leave("creation token bound to another container")
			} else {
				v.forbid(pfx + "v1-wrong-container")
			}
		}
		if ch.failEpoch {
			v.forbid(pfx + "epoch-unreadable")
		} else if e := ch.epoch; !(t.life[0] <= e && t.life[1] <= e && e <= t.life[2]) {
			v.forbid(pfx + "v1-not-valid-at-epoch")
		}
		if a.reqDefect != 0 || a.reqSigner != t.sessKey {
			v.forbid(pfx + "v1-request-not-signed-by-session-key")
		}
	case 3:
		t := a.tok
		if t.garbage {
			v.forbid(pfx + "token-undecodable")
			return
		}
		nnsNeeded := false
		for x := t; x != nil; x = x.origin {
			lvl := "v2-"
			if x != t {
				lvl = "v2-origin-"
			}
			switch {
			case x.sigDefect != 0:
				v.forbid(pfx + lvl + "token-signature-invalid")
			case x.signer != x.issuer && x.scheme == 3:
				v.forbid(pfx + lvl + "token-n3-witness-of-another-account")
			case x.signer != x.issuer:
				v.forbid(pfx + lvl + "token-signature-not-by-issuer")
			}
			if x.scheme == 3 && ch.failScript {
				v.forbid(pfx + "witness-cannot-be-run")
			}
			lt := x.lifeT
			if x != t {
				// an origin token is judged by its validity window; its issue time alone is left open
				if lifeT(lt, ch.chainTime) != yes {
					lt[0] = lt[1]
					if lifeT(lt, ch.chainTime) == yes {
						v.leave("origin token issued in the future")
					}
				}
			}
			switch lifeT(lt, ch.chainTime) {
			case no:
				v.forbid(pfx + lvl + "not-valid-at-chain-time")
			case maybe:
				v.leave("token lifetime boundary inside the current second")
			}
			if x.lifeT[1].After(x.lifeT[2]) || x.lifeT[0].After(x.lifeT[2]) {
				v.forbid(pfx + lvl + "lifetime-malformed")
			}
			if o := x.origin; o != nil {
				okIss := false
				for _, s := range o.subjects {
					if s.nns != "" {
						nnsNeeded = true
						if w.nnsHas(s.nns, x.issuer) {
							okIss = true
						}
					} else if s.key == x.issuer {
						okIss = true
					}
				}
				if !okIss {
					v.forbid(pfx + "v2-delegate-not-a-subject-of-origin")
				}
				if o.final {
					v.forbid(pfx + "v2-origin-is-final")
				}
				if o.lifeT[1].After(x.lifeT[1]) || o.lifeT[2].Before(x.lifeT[2]) {
					v.forbid(pfx + "v2-delegation-widens-lifetime")
				}
				for _, c := range x.ctxs {
					for _, vb := range c.verbs {
						sel := c.cnr
						if !ctxCovers(o.ctxs, vb, func(oc int) bool { return oc == 0 || oc == sel }) {
							v.forbid(pfx + "v2-delegation-widens-context")
						}
					}
				}
				if len(o.ctxs) > 1 && fmt.Sprint(o.ctxs) != fmt.Sprint(x.ctxs) {
					v.leave("delegation over several origin contexts")
				}
			}
		}
		root := t
		for root.origin != nil {
			root = root.origin
		}
		if root.issuer != owner {
			v.forbid(pfx + "v2-issuer-not-owner")
		}
		if !ctxCovers(t.ctxs, int(v2Verbs[op]), func(c int) bool { return c == 0 || c == 1 }) {
			v.forbid(pfx + "v2-verb-or-container-not-covered")
		}
		// bound to the request's signer
		acc := directAccount(a)
		if a.reqN3 && ch.failScript {
			acc = -1 // the witness cannot be run now: the signature proves nothing
		}
		okSub := false
		for _, s := range t.subjects {
			if s.nns != "" {
				nnsNeeded = true
				if acc >= 0 && w.nnsHas(s.nns, acc) {
					okSub = true
				}
			} else if acc >= 0 && s.key == acc {
				okSub = true
			}
		}
		switch {
		case acc < 0:
			v.forbid(pfx + "v2-request-signature-invalid")
		case !okSub:
			v.forbid(pfx + "v2-request-signer-not-a-subject")
		}
		if nnsNeeded && ch.failNNS {
			v.leave("NNS unreadable (the node may still hold earlier answers)")
		}
		// structural rules of the token format that the generator may break
		for x := t; x != nil; x = x.origin {
			if len(x.ctxs) == 2 && x.ctxs[0].cnr == x.ctxs[1].cnr {
				v.forbid(pfx + "v2-duplicate-context")
			}
			if len(x.ctxs) == 2 && (x.ctxs[0].cnr == 0 || x.ctxs[1].cnr == 0) && fmt.Sprint(x.ctxs[0].verbs) == fmt.Sprint(x.ctxs[1].verbs) {
				v.leave("explicit context repeats the wildcard's verbs")
			}
		}
	}
}

var permittedSysAttrs = map[string]bool{"__NEOFS__NAME": true, "__NEOFS__ZONE": true, "__NEOFS__LOCK_UNTIL": true}

func (w *world) judgeEACL(v *verdict, e *eaclSpec, acl uint32, forCreate bool) {
	if e.garbage {
		v.forbid("eacl-undecodable")
		return
	}
	if e.sysRole {
		v.forbid("eacl-touches-system-role")
	}
	if acl&(1<<28) != 0 {
		v.forbid("eacl-forbidden-by-final-basic-acl")
	}
	if e.cnrSel == 0 {
		v.forbid("eacl-without-container")
	}
	if forCreate && e.cnrSel == 2 {
		v.forbid("eacl-for-another-container")
	}
	if e.oddFilter {
		v.leave("eACL filter with a non-numeric value for a numeric matcher")
	}
}

func (w *world) judge(s *evSpec) verdict {
	var v verdict
	op := opOf(s.kind)
	switch op {
	case opPut:
		c := s.cnr
		if c.undecodable {
			v.forbid("container-undecodable")
			return v
		}
		for _, a := range c.attrs {
			if !strings.HasPrefix(a[0], "__NEOFS__") || permittedSysAttrs[a[0]] {
				continue
			}
			switch a[0] {
			case "__NEOFS__METAINFO_CONSISTENCY":
				if !w.metaEnabled {
					v.leave("chain-metadata attribute while metadata is off")
				}
			case "__NEOFS__DISABLE_HOMOMORPHIC_HASHING":
				v.leave("legacy well-known system attribute")
			default:
				v.forbid("forbidden-system-attribute")
			}
		}
		switch policies[c.policy].class {
		case polInvalid:
			v.forbid("invalid-policy")
		case polEC:
			if !w.allowEC {
				v.forbid("ec-policy-not-allowed")
			}
		case polMix:
			if !w.allowEC {
				v.forbid("ec-policy-not-allowed")
			}
			v.leave("REP+EC mix")
		}
		if s.kind == kPutNamed || s.kind == kCreate {
			name, zone := "", ""
			for _, a := range c.attrs {
				if a[0] == "__NEOFS__NAME" {
					name = a[1]
				}
				if a[0] == "__NEOFS__ZONE" {
					zone = a[1]
				}
			}
			if zone == "" && name != "" {
				zone = "container"
			}
			if c.nameArg != name || (c.zoneArg != zone && !(c.zoneArg == "" && name == "")) {
				v.leave("name/zone arguments differ from the container's attributes")
			}
		}
		w.judgeAuth(&v, &s.auth, c.owner, opPut, true, "")
		if s.eacl != nil {
			w.judgeEACL(&v, s.eacl, c.acl, true)
			if !s.eacl.garbage {
				w.judgeAuth(&v, s.eaclAuth, c.owner, opEACL, false, "eacl:")
			}
		}
	default:
		if s.badID {
			v.forbid("malformed-container-id")
			return v
		}
		if op == opEACL {
			if s.eacl.garbage {
				v.forbid("eacl-undecodable")
				return v
			}
			if s.eacl.cnrSel == 0 {
				v.forbid("eacl-without-container")
				return v
			}
		}
		if s.target < 0 || !w.cnrs[s.target].exists {
			v.forbid("container-does-not-exist")
			return v
		}
		if w.ch.failGet {
			v.forbid("container-unreadable")
			return v
		}
		t := w.cnrs[s.target]
		if op == opEACL {
			w.judgeEACL(&v, s.eacl, t.cnr.BasicACL().Bits(), false)
		}
		if op == opSetAttr || op == opRmAttr {
			if time.Now().Unix() > s.attr.validUntil {
				v.forbid("request-expired")
			}
			if strings.HasPrefix(s.attr.name, "__NEOFS__") && !permittedSysAttrs[s.attr.name] {
				v.leave("attribute change names a non-permitted system attribute")
			}
		}
		w.judgeAuth(&v, &s.auth, t.owner, op, false, "")
	}
	return v
}

// ---- description (log) -------------------------------------------------------------------

func descTok(t *tokSpec) string {
	if t == nil {
		return ""
	}
	if t.garbage {
		return " tok=garbage"
	}
	var b strings.Builder
	if t.v2 {
		fmt.Fprintf(&b, " v2{iss=k%d by=k%d sch=%d sd=%d life=%d/%d/%d subj=%v ctx=%v fin=%v", t.issuer, t.signer, t.scheme, t.sigDefect,
			t.lifeT[0].Unix(), t.lifeT[1].Unix(), t.lifeT[2].Unix(), t.subjects, t.ctxs, t.final)
		if t.origin != nil {
			b.WriteString(" origin=" + descTok(t.origin))
		}
		b.WriteString("}")
		return b.String()
	}
	fmt.Fprintf(&b, " v1{iss=k%d by=k%d sch=%d sd=%d verb=%s bind=%d life=%d/%d/%d sess=k%d}", t.issuer, t.signer, t.scheme, t.sigDefect,
		opName[t.verb], t.bind, t.life[0], t.life[1], t.life[2], t.sessKey)
	return b.String()
}

func descAuth(a *authSpec) string {
	return fmt.Sprintf("auth{m=%d n3=%v by=k%d claim=k%d d=%d%s}", a.mode, a.reqN3, a.reqSigner, a.reqClaim, a.reqDefect, descTok(a.tok))
}

func (w *world) describe(s *evSpec) string {
	var b strings.Builder
	b.WriteString(kindMethod[s.kind])
	if s.cnr != nil {
		fmt.Fprintf(&b, " owner=k%d acl=%08x attrs=%v pol=%q garbage=%v name=%q zone=%q", s.cnr.owner, s.cnr.acl, s.cnr.attrs, policies[s.cnr.policy].name, s.cnr.garbage, s.cnr.nameArg, s.cnr.zoneArg)
	} else {
		fmt.Fprintf(&b, " target=c%d badid=%v", s.target, s.badID)
	}
	if s.eacl != nil {
		fmt.Fprintf(&b, " eacl=%+v", *s.eacl)
	}
	if s.attr != nil {
		fmt.Fprintf(&b, " attr=%s until=%d", s.attr.name, s.attr.validUntil)
	}
	b.WriteString(" " + descAuth(&s.auth))
	if s.eaclAuth != nil {
		b.WriteString(" eacl-" + descAuth(s.eaclAuth))
	}
	return b.String()
}

// ---- delivery ----------------------------------------------------------------------------

func (w *world) deliver(s *evSpec, direct bool) {
	cp := w.cp
	if direct {
		switch e := s.ev.(type) {
		case containerEvent.CreateContainerRequest:
			cp.processContainerPut(e, cid.ID(sha256.Sum256(e.Container)))
			return
		case containerEvent.CreateContainerV2Request:
			cp.processCreateContainerRequest(e)
			return
		case containerEvent.RemoveContainerRequest:
			if e.VerificationScript == nil {
				e.VerificationScript = []byte{}
			}
			cp.processContainerDelete(e)
			return
		case containerEvent.PutContainerEACLRequest:
			cp.processPutEACLRequest(e)
			return
		case containerEvent.SetAttributeRequest:
			cp.processSetAttributeRequest(e)
			return
		case containerEvent.RemoveAttributeRequest:
			cp.processRemoveAttributeRequest(e)
			return
		}
	}
	w.handlers[kindMethod[s.kind]](s.ev)
}

func sigOf(op int, reasons []string) string {
	rs := append([]string(nil), reasons...)
	sort.Strings(rs)
	var u []string
	for i, x := range rs {
		if i == 0 || rs[i-1] != x {
			u = append(u, x)
		}
	}
	return opName[op] + " approved although: " + strings.Join(u, "+")
}

func runC37(r *simkit.R) {
	ch := &cnrChain{r: r, cnrHash: util.Uint160{0xC1, 0xC2, 0xC3}, cnrs: map[cid.ID]container.Container{}, nns: map[string]map[util.Uint160]bool{}}
	w := &world{r: r, ch: ch, alpha: true, nnsName: "team.neofs", nnsMembers: map[int]bool{}}
	ch.flavor = r.Weighted(70, 15, 15)
	w.allowEC = !r.Bool(40)
	w.metaEnabled = r.Bool(30)
	w.poolSize = 1 + r.Intn(3)
	w.avoidKnown = !r.Bool(35)
	ch.epoch = uint64(5 + r.Intn(4))
	ch.chainTime = time.Date(2024, 3, 1, 12, 0, 0, 0, time.UTC).Add(time.Duration(r.Intn(3)) * 400 * time.Millisecond)
	ch.nm = simNetmap(r.Intn(6))
	if r.Bool(70) {
		w.nnsMembers[23] = true
		ch.nns[w.nnsName] = map[util.Uint160]bool{simUser(23).ScriptHash(): true}
	}
	sc := client.NewSimClient(ch, simKey(30))
	r.OnCleanup(func() { client.ReleaseSimClient(sc) })
	cc, err := cntClient.NewFromMorph(sc, ch.cnrHash, cntClient.AsAlphabet())
	if err != nil {
		r.Failf("infra", "container client", "%v", err)
	}
	// the node's log is kept only to explain a violation (never part of the trace digest)
	obsCore, obsLogs := observer.New(zap.DebugLevel)
	w.nodeLog = func() string {
		var b strings.Builder
		for _, e := range obsLogs.TakeAll() {
			b.WriteString("\n      node log: " + e.Message)
			for _, f := range e.Context {
				if f.Key == "error" && f.Interface != nil {
					b.WriteString(fmt.Sprintf(": %v", f.Interface))
				}
			}
		}
		return b.String()
	}
	cp, err := New(&Params{
		Log: zap.New(obsCore), PoolSize: w.poolSize, AlphabetState: simAlpha{&w.alpha}, ContainerClient: cc,
		MetaClient: simMeta{ch}, NetworkState: simNet{ch}, MetaEnabled: w.metaEnabled, AllowEC: w.allowEC, ChainTime: simClock{ch},
	})
	if err != nil {
		r.Failf("infra", "processor", "%v", err)
	}
	w.cp = cp
	r.OnCleanup(func() {
		cp.pool.Release()
		time.Sleep(2 * time.Second)
		synctest.Wait()
	})
	// every registered request kind must be known to the generator
	w.handlers = map[string]event.Handler{}
	known := map[string]bool{"putReport": true}
	for _, m := range kindMethod {
		known[m] = true
	}
	for _, h := range cp.ListenerNotaryHandlers() {
		t := h.RequestType().String()
		if !known[t] {
			r.Failf("infra", "unknown registered request kind", "the processor registers %q, the generator does not know it", t)
		}
		w.handlers[t] = h.Handler()
	}
	for _, m := range kindMethod {
		if w.handlers[m] == nil {
			r.Failf("infra", "request kind not registered", "%q has no handler", m)
		}
	}
	regParsers := map[string]bool{}
	for _, p := range cp.ListenerNotaryParsers() {
		regParsers[p.RequestType().String()] = true
	}
	for _, m := range kindMethod {
		if !regParsers[m] {
			r.Failf("infra", "request kind has no parser", "%q", m)
		}
	}

	// initial containers on the chain
	for i, n := 0, 1+r.Intn(3); i < n; i++ {
		c := &cnrSpec{owner: r.Intn(nKeys), nonce: byte(0x70 + i), acl: []uint32{0x0FBFBFFF, 0x1FBFBFFF, 0x0C8C8CCC}[r.Intn(3)], policy: 0}
		w.materialize(c)
		var cnr container.Container
		if err := cnr.FromProtoMessage(c.msg); err != nil {
			r.Failf("infra", "initial container", "%v", err)
		}
		ch.cnrs[c.id] = cnr
		w.cnrs = append(w.cnrs, &wCnr{id: c.id, cnr: cnr, owner: c.owner, exists: true})
		r.Logf("chain: container c%d owner=k%d acl=%08x", i, c.owner, c.acl)
	}
	r.Logf("config flavor=%d allowEC=%v meta=%v pool=%d epoch=%d netmap=%d nns=%v plantKnownFindingShapes=%v", ch.flavor, w.allowEC, w.metaEnabled, w.poolSize, ch.epoch, len(ch.nm.Nodes()), len(w.nnsMembers), !w.avoidKnown)

	nEvents := 5 + r.Intn(26)
	approvals, refusals := 0, 0
	var prev *evSpec
	for i := 0; i < nEvents && !r.Violated(); i++ {
		r.Step()
		// the world moves
		switch r.Weighted(40, 15, 12, 10, 8, 8, 7) {
		case 1:
			ch.epoch += uint64(1 + r.Intn(2))
			r.Logf("epoch -> %d", ch.epoch)
		case 2:
			d := []time.Duration{time.Second, 400 * time.Millisecond, 600 * time.Millisecond, time.Hour}[r.Intn(4)]
			ch.chainTime = ch.chainTime.Add(d)
			r.Logf("chain time +%v", d)
		case 3:
			d := []time.Duration{time.Second, 500 * time.Millisecond, 2 * time.Second, time.Hour}[r.Intn(4)]
			time.Sleep(d)
			synctest.Wait() // the pool's stale-worker purge runs on the same clock: let it finish before the next delivery
			r.AddSimTime(d)
			r.Logf("wall time +%v", d)
		case 4:
			w.alpha = !w.alpha
			r.Logf("alphabet -> %v", w.alpha)
		case 5:
			if ch.epoch > 3 {
				ch.epoch--
				r.Logf("epoch view steps back -> %d", ch.epoch)
			}
		case 6:
			ch.nm = simNetmap(r.Intn(6))
			r.Logf("netmap -> %d nodes", len(ch.nm.Nodes()))
		}
		ch.failGet, ch.failEpoch, ch.failNNS, ch.failNetMap, ch.failSign, ch.failScript = false, false, false, false, false, false
		if r.Bool(12) {
			switch r.Intn(6) {
			case 0:
				ch.failGet = true
			case 1:
				ch.failEpoch = true
			case 2:
				ch.failNNS = true
			case 3:
				ch.failNetMap = true
			case 4:
				ch.failSign = true
			case 5:
				ch.failScript = true
			}
			r.Logf("chain fault get=%v epoch=%v nns=%v netmap=%v sign=%v script=%v", ch.failGet, ch.failEpoch, ch.failNNS, ch.failNetMap, ch.failSign, ch.failScript)
		}

		// the batch delivered in this step: one request, or a burst through the pool
		var batch []*evSpec
		nb := 1
		if r.Bool(15) {
			// a burst never exceeds the pool: whether a full non-blocking pool drops a task depends on
			// goroutine timing, which the simulation does not own
			nb = min(2+r.Intn(2), w.poolSize)
		}
		for j := 0; j < nb; j++ {
			if j > 0 && prev != nil && r.Bool(35) {
				batch = append(batch, prev) // duplicate delivery of the same request
				continue
			}
			s := w.genEvent()
			s.desc = w.describe(s)
			if err := w.build(s); err != nil {
				r.Op("#%d %s -> not deliverable (%v)", i, s.desc, err)
				if v := w.judge(s); len(v.reasons) == 0 && len(v.open) == 0 {
					r.Failf("cnr-approve-missing", kindMethod[s.kind]+": fully valid request rejected by the "+err.Error(), "%s: %v", s.desc, err)
				}
				continue
			}
			batch = append(batch, s)
			prev = s
		}
		if len(batch) == 0 {
			continue
		}
		direct := len(batch) == 1 && r.Bool(50)
		before := len(ch.snapshot())
		verdicts := make([]verdict, len(batch))
		for j, s := range batch {
			verdicts[j] = w.judge(s)
		}
		for _, s := range batch {
			w.deliver(s, direct)
		}
		synctest.Wait()
		nodeLog := w.nodeLog()
		effs := ch.snapshot()[before:]
		if !w.alpha && len(effs) > 0 {
			r.Failf("cnr-nonalpha-effect", kindMethod[batch[0].kind]+": state-changing call by a non-alphabet node", "%d calls, first %s; request %s", len(effs), effs[0].method, batch[0].desc)
		}
		byTx := map[util.Uint256]int{}
		side := 0
		for _, e := range effs {
			if e.method == "NotarySignAndInvokeTX" {
				byTx[e.tx]++
			} else {
				side++
			}
		}
		delivered := map[util.Uint256]int{}
		for _, s := range batch {
			delivered[s.txHash]++
		}
		for tx, n := range byTx {
			if delivered[tx] == 0 {
				r.Failf("cnr-approve-wrong-tx", "a transaction that was not requested was signed", "%d signatures for an unknown transaction", n)
			}
			if n > delivered[tx] {
				r.Failf("cnr-approve-twice", "more approvals than deliveries of the request", "%d approvals, %d deliveries", n, delivered[tx])
			}
		}
		anyPutApproved := false
		for j, s := range batch {
			v := verdicts[j]
			op := opOf(s.kind)
			n := byTx[s.txHash]
			mode := "handler"
			if direct {
				mode = "direct"
			}
			r.Op("#%d %s %s -> approvals=%d forbidden=%v open=%v", i, mode, s.desc, n, v.reasons, v.open)
			if n > 0 && op == opPut {
				anyPutApproved = true
			}
			if !w.alpha {
				continue
			}
			if n > 0 && len(v.reasons) > 0 {
				r.Failf("cnr-approve-unauthorised", sigOf(op, v.reasons), "request %s was approved (%d) although %v%s", s.desc, n, v.reasons, nodeLog)
			}
			if n == 0 && len(v.reasons) == 0 && len(v.open) == 0 && len(batch) <= w.poolSize {
				r.Failf("cnr-approve-missing", kindMethod[s.kind]+": fully valid request not approved", "request %s: nothing forbids it, no approval recorded%s", s.desc, nodeLog)
			}
			if n > 0 {
				approvals++
				r.Probe("approved:" + kindMethod[s.kind] + fmt.Sprintf(":mode%d", s.auth.mode))
				// the chain accepts the transaction (mostly)
				if !ch.failSign && r.Bool(75) {
					switch op {
					case opPut:
						var cnr container.Container
						if err := cnr.FromProtoMessage(s.cnr.msg); err == nil && len(w.cnrs) < 6 {
							if _, dup := ch.cnrs[s.cnr.id]; !dup {
								ch.cnrs[s.cnr.id] = cnr
								w.cnrs = append(w.cnrs, &wCnr{id: s.cnr.id, cnr: cnr, owner: s.cnr.owner, exists: true})
								r.Logf("chain: container c%d created owner=k%d", len(w.cnrs)-1, s.cnr.owner)
							}
						}
					case opDelete:
						if s.target >= 0 && w.cnrs[s.target].exists {
							w.cnrs[s.target].exists = false
							delete(ch.cnrs, w.cnrs[s.target].id)
							r.Logf("chain: container c%d removed", s.target)
						}
					}
				}
			} else if len(v.reasons) > 0 {
				refusals++
				for _, rs := range v.reasons {
					r.Probe("refused:" + rs)
				}
			}
		}
		if side > 0 && !anyPutApproved {
			r.Failf("cnr-side-effect-without-approval", kindMethod[batch[0].kind]+": state-changing call without an approved creation", "%d calls", side)
		}
		for _, f := range []struct {
			on   bool
			name string
		}{{ch.failGet, "container read fails"}, {ch.failEpoch, "epoch read fails"}, {ch.failNNS, "NNS read fails"}, {ch.failNetMap, "netmap read fails"}, {ch.failSign, "notary signing fails"}, {ch.failScript, "witness run fails"}} {
			if f.on {
				r.Fired(f.name)
			}
		}
		if len(batch) > 1 {
			r.Fired("burst delivery")
		}
	}
	if approvals > 0 && refusals > 0 {
		r.Nontrivial()
	}
}
