module verif/simkit

go 1.25.0

require github.com/anishathalye/porcupine v1.3.0
