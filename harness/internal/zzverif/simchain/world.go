//go:build verif

package simchain

import (
	"crypto/ecdsa"
	"crypto/sha256"
	"fmt"
	"math/big"
	"sync"
	"time"

	"github.com/nspcc-dev/neo-go/pkg/crypto/keys"
	"github.com/nspcc-dev/neo-go/pkg/util"
	containerrpc "github.com/nspcc-dev/neofs-contract/rpc/container"
	netmaprpc "github.com/nspcc-dev/neofs-contract/rpc/netmap"
	cntClient "github.com/nspcc-dev/neofs-node/pkg/morph/client/container"
	sdkclient "github.com/nspcc-dev/neofs-sdk-go/client"
	"github.com/nspcc-dev/neofs-sdk-go/container"
	"github.com/nspcc-dev/neofs-sdk-go/container/acl"
	cid "github.com/nspcc-dev/neofs-sdk-go/container/id"
	neofsecdsa "github.com/nspcc-dev/neofs-sdk-go/crypto/ecdsa"
	"github.com/nspcc-dev/neofs-sdk-go/eacl"
	"github.com/nspcc-dev/neofs-sdk-go/netmap"
	"github.com/nspcc-dev/neofs-sdk-go/reputation"
	"github.com/nspcc-dev/neofs-sdk-go/user"
)

// ---- deterministic key pool ------------------------------------------------------------------

// Key roles in the pool.
const (
	KNode     = 0 // the inner ring node under test
	KIRFirst  = 1 // 1..6: other inner ring / alphabet candidates
	KIRLast   = 6
	KOwner    = 7 // container owner
	KStranger = 8 // another user
	KSNFirst  = 9 // 9..12: storage nodes
	KSNLast   = 12
	NKeys     = 13
)

var (
	poolOnce sync.Once
	pool     []*keys.PrivateKey
	poolName map[string]string
)

func initPool() {
	poolName = map[string]string{}
	for i := 0; i < NKeys; i++ {
		s := sha256.Sum256([]byte(fmt.Sprintf("verif-ir-key-%d", i)))
		k, err := keys.NewPrivateKeyFromBytes(s[:])
		if err != nil {
			panic("simchain: key pool: " + err.Error())
		}
		pool = append(pool, k)
		poolName[string(k.PublicKey().Bytes())] = fmt.Sprintf("K%d", i)
	}
}

// Key returns the i-th private key of the fixed pool (fixed scalars: runs are reproducible).
func Key(i int) *keys.PrivateKey { poolOnce.Do(initPool); return pool[i] }

// Pub returns the i-th public key.
func Pub(i int) *keys.PublicKey { return Key(i).PublicKey() }

// KeyName prints a pool key as K<i>.
func KeyName(k *keys.PublicKey) string {
	poolOnce.Do(initPool)
	if n, ok := poolName[string(k.Bytes())]; ok {
		return n
	}
	return "K?" + k.StringCompressed()[:8]
}

// PubList builds a key list from pool indices.
func PubList(idx ...int) keys.PublicKeys {
	var out keys.PublicKeys
	for _, i := range idx {
		out = append(out, Pub(i))
	}
	return out
}

// UserID of a pool key.
func UserID(i int) user.ID { return user.NewFromECDSAPublicKey(ecdsa.PublicKey(*Pub(i))) }

// Sign makes the deterministic (RFC 6979) signature the container contract accepts from users.
func Sign(i int, data []byte) []byte {
	sig, err := neofsecdsa.SignerRFC6979(Key(i).PrivateKey).Sign(data)
	if err != nil {
		panic("simchain: sign: " + err.Error())
	}
	return sig
}

// ---- chain content ---------------------------------------------------------------------------

// SetNodes installs a network map of n storage nodes (pool keys KSNFirst...).
func (c *Chain) SetNodes(n int) {
	c.mu.Lock()
	defer c.mu.Unlock()
	c.Nodes = nil
	for i := 0; i < n; i++ {
		c.Nodes = append(c.Nodes, NodeRec{Key: Pub(KSNFirst + i), Addr: fmt.Sprintf("/ip4/10.0.0.%d/tcp/8080", i+1)})
	}
}

// NewContainer builds a container owned by pool key owner.  The nonce comes from salt (never random),
// so identifiers and placements are reproducible.  rep is the replica number of its "REP n" policy.
func NewContainer(owner int, salt uint32, rep int, basic acl.Basic, domain, zone string) (container.Container, *containerrpc.ContainerInfo, cid.ID) {
	var pp netmap.PlacementPolicy
	if err := pp.DecodeString(fmt.Sprintf("REP %d", rep)); err != nil {
		panic("simchain: policy: " + err.Error())
	}
	n := sha256.Sum256([]byte(fmt.Sprintf("nonce-%d", salt)))
	n[6] = n[6]&0x0f | 0x40 // UUID version 4
	n[8] = n[8]&0x3f | 0x80 // RFC 4122 variant
	info := &containerrpc.ContainerInfo{
		Version:       &containerrpc.ContainerAPIVersion{Major: big.NewInt(2), Minor: big.NewInt(18)},
		Owner:         UserID(owner).ScriptHash(),
		Nonce:         n[:16],
		BasicACL:      big.NewInt(int64(basic.Bits())),
		StoragePolicy: pp.Marshal(),
		// at least one attribute: the IR's createV2 parser rejects the Null item an attribute-less container produces
		Attributes: []*containerrpc.ContainerAttribute{{Key: "Origin", Value: "verif"}},
	}
	if domain != "" {
		info.Attributes = append(info.Attributes, &containerrpc.ContainerAttribute{Key: "__NEOFS__NAME", Value: domain})
		if zone != "" {
			info.Attributes = append(info.Attributes, &containerrpc.ContainerAttribute{Key: "__NEOFS__ZONE", Value: zone})
		}
	}
	cnr, err := cntClient.ContainerFromStruct(*info)
	if err != nil {
		panic("simchain: container: " + err.Error())
	}
	return cnr, info, cid.NewFromMarshalledContainer(cnr.Marshal())
}

// AddContainer registers a container in the simulated Container contract.
func (c *Chain) AddContainer(id cid.ID, info *containerrpc.ContainerInfo) {
	c.mu.Lock()
	c.Cnrs = append(c.Cnrs, CnrRec{ID: id, Info: info})
	c.mu.Unlock()
}

// ---- contract calls of notary requests --------------------------------------------------------

// Call is one contract call of a notary request's main transaction, with what the generator knows about it.
type Call struct {
	Contract util.Uint160
	Method   string
	Args     []any

	Kind  string // "<contract>.<method>" of the generator that produced it ("" for an arbitrary call)
	Valid bool   // the content would pass the validation of the matching handler
	Why   string // what is wrong when !Valid
}

// CallKinds lists every (contract, method) the generators know; harnesses compare it with the
// parser tables registered by the real processors.
var CallKinds = []string{
	"container.put", "container.putNamed", "container.create", "container.createV2", "container.delete", "container.remove",
	"container.setEACL", "container.putEACL", "container.putReport", "container.setAttribute", "container.removeAttribute",
	"netmap.addNode", "netmap.updateState", "reputation.put",
}

// BuildCall builds a call of the given kind.  bad=0: valid for its handler; bad>0: a defect the handler
// must catch (wrong signer, unknown container, ...).  salt makes distinct calls distinct.
// Requires FS to hold >=1 node and >=1 container of owner KOwner (see SeedFS).
func (w *World) BuildCall(kind string, bad int, salt uint32) Call {
	c := Call{Kind: kind, Valid: bad == 0}
	signer := KOwner
	if bad != 0 && !(kind == "container.putNamed" && bad == 2) {
		signer = KStranger
		c.Why = "signed by a key that is not the container owner"
	}
	pub := Pub(signer).Bytes()
	tok := []byte{}
	fs := w.FS
	fs.mu.Lock()
	nNodes := len(fs.Nodes)
	var ex CnrRec
	if len(fs.Cnrs) > 0 {
		ex = fs.Cnrs[int(salt)%len(fs.Cnrs)]
	}
	epoch := fs.Epoch
	fs.mu.Unlock()
	if nNodes == 0 {
		nNodes = 1
	}
	validUntil := time.Now().Add(time.Hour).Unix()

	switch kind {
	case "container.put", "container.create":
		cnr, _, _ := NewContainer(KOwner, salt, 1, acl.PublicRWExtended, "", "")
		bin := cnr.Marshal()
		c.Contract, c.Method = w.Container, "put"
		c.Args = []any{bin, Sign(signer, bin), pub, tok}
		if kind == "container.create" {
			c.Method = "create"
			c.Args = append(c.Args, "", "", false)
		}
	case "container.putNamed":
		cnr, _, _ := NewContainer(KOwner, salt, 1, acl.PublicRWExtended, "cnr-name", "container")
		bin := cnr.Marshal()
		c.Contract, c.Method = w.Container, "putNamed"
		name := "cnr-name"
		if bad == 2 {
			name = "other-name"
			c.Valid, c.Why = false, "domain name argument differs from the container's"
		}
		c.Args = []any{bin, Sign(signer, bin), pub, tok, name, "container"}
	case "container.createV2":
		cnr, info, _ := NewContainer(KOwner, salt, 1, acl.PublicRWExtended, "", "")
		bin := cnr.Marshal()
		c.Contract, c.Method = w.Container, "createV2"
		c.Args = []any{info, Sign(signer, bin), pub, tok}
	case "container.delete":
		// legacy method without verification script: the owner's N3 witness is run on the chain
		wit := []byte(fmt.Sprintf("owner-witness-%d", salt))
		if bad == 0 {
			fs.AllowWitness(wit)
		} else {
			c.Why = "witness script does not verify for the owner account"
		}
		c.Contract, c.Method = w.Container, "delete"
		c.Args = []any{append([]byte(nil), ex.ID[:]...), wit, tok}
	case "container.remove":
		id := append([]byte(nil), ex.ID[:]...)
		c.Contract, c.Method = w.Container, "remove"
		c.Args = []any{id, Sign(signer, id), pub, tok}
	case "container.setEACL", "container.putEACL":
		c.Contract, c.Method = w.Container, kind[len("container."):]
		c.Args = w.EACLArgs(ex.ID, signer, salt)
	case "container.putReport":
		nodeKey := w.containerNode(ex)
		if bad != 0 {
			nodeKey = Pub(KStranger).Bytes()
			c.Why = "reporter is not a node of the container"
		}
		c.Contract, c.Method = w.Container, "putReport"
		c.Args = []any{append([]byte(nil), ex.ID[:]...), int64(1000 + salt%1000), int64(salt % 100), nodeKey}
	case "container.setAttribute":
		prm := sdkclient.SetContainerAttributeParameters{ID: ex.ID, Attribute: "CORS", Value: fmt.Sprintf("v%d", salt), ValidUntil: time.Unix(validUntil, 0)}
		data := sdkclient.GetSignedSetContainerAttributeParameters(prm)
		c.Contract, c.Method = w.Container, "setAttribute"
		c.Args = []any{append([]byte(nil), ex.ID[:]...), prm.Attribute, prm.Value, validUntil, Sign(signer, data), pub, tok}
	case "container.removeAttribute":
		prm := sdkclient.RemoveContainerAttributeParameters{ID: ex.ID, Attribute: "CORS", ValidUntil: time.Unix(validUntil+int64(salt%50), 0)}
		data := sdkclient.GetSignedRemoveContainerAttributeParameters(prm)
		c.Contract, c.Method = w.Container, "removeAttribute"
		c.Args = []any{append([]byte(nil), ex.ID[:]...), prm.Attribute, prm.ValidUntil.Unix(), Sign(signer, data), pub, tok}
	case "netmap.addNode":
		n2 := &netmaprpc.NetmapNode2{Addresses: []string{fmt.Sprintf("/ip4/10.1.%d.%d/tcp/8080", salt%200, salt/200%200)}, Attributes: map[string]string{}, Key: Pub(KSNLast), State: netmaprpc.NodeStateOnline}
		if bad != 0 {
			n2.Addresses = []string{"not a multiaddress"}
			c.Why = "node announces an unparsable network address"
		}
		c.Contract, c.Method = w.Netmap, "addNode"
		c.Args = []any{n2}
	case "netmap.updateState":
		// the handler has nothing to validate beyond the request structure
		c.Valid, c.Why = true, ""
		c.Contract, c.Method = w.Netmap, "updateState"
		c.Args = []any{int64(1 + salt%3), Pub(KSNFirst + int(salt)%nNodes).Bytes()}
	case "reputation.put":
		// peer = first storage node; its manager is chosen by the caller through ManagerOf
		peer, mgr := KSNFirst, w.ManagerOf
		var tr reputation.Trust
		var pid, mid reputation.PeerID
		pid.SetPublicKey(Pub(peer).Bytes())
		tr.SetPeer(pid)
		tr.SetValue(0.5)
		var gt reputation.GlobalTrust
		gt.Init()
		mk := KSNFirst
		if mgr != nil {
			mk = mgr(epoch-1, Pub(peer).Bytes())
		}
		mid.SetPublicKey(Pub(mk).Bytes())
		gt.SetManager(mid)
		gt.SetTrust(tr)
		if err := gt.Sign(neofsecdsa.SignerRFC6979(Key(mk).PrivateKey)); err != nil {
			panic("simchain: sign trust: " + err.Error())
		}
		if bad != 0 {
			// (that the signing key is the manager's is not checked by the processor; an altered value is)
			tr.SetValue(0.9)
			gt.SetTrust(tr)
			c.Why = "trust value altered after it was signed"
		}
		c.Contract, c.Method = w.Reputation, "put"
		c.Args = []any{int64(epoch - 1), Pub(peer).Bytes(), gt.Marshal()}
	default:
		panic("simchain: no generator for notary call kind " + kind)
	}
	return c
}

// containerNode returns the key of a storage node that belongs to the container under the current
// network map of the model (placement computed by the SDK, as every party of the network does).
func (w *World) containerNode(rec CnrRec) []byte {
	fs := w.FS
	fs.mu.Lock()
	var nis []netmap.NodeInfo
	for _, n := range fs.Nodes {
		var ni netmap.NodeInfo
		ni.SetPublicKey(n.Key.Bytes())
		ni.SetNetworkEndpoints(n.Addr)
		ni.SetOnline()
		nis = append(nis, ni)
	}
	fs.mu.Unlock()
	cnr, err := cntClient.ContainerFromStruct(*rec.Info)
	if err != nil {
		panic("simchain: stored container: " + err.Error())
	}
	var nm netmap.NetMap
	nm.SetNodes(nis)
	vv, err := nm.ContainerNodes(cnr.PlacementPolicy(), rec.ID)
	if err != nil || len(vv) == 0 || len(vv[0]) == 0 {
		panic(fmt.Sprintf("simchain: container nodes: %v", err))
	}
	return vv[0][0].PublicKey()
}

// EACLArgs builds the four arguments of setEACL/putEACL: an eACL table of the container signed by signer.
func (w *World) EACLArgs(id cid.ID, signer int, salt uint32) []any {
	rec := eacl.ConstructRecord(eacl.ActionDeny, eacl.OperationPut, []eacl.Target{eacl.NewTargetByRole(eacl.RoleOthers)},
		eacl.NewObjectPropertyFilter(fmt.Sprintf("k%d", salt), eacl.MatchStringEqual, "v"))
	tb := eacl.NewTableForContainer(id, []eacl.Record{rec})
	bin := tb.Marshal()
	return []any{bin, Sign(signer, bin), Pub(signer).Bytes(), []byte{}}
}

// SeedFS installs a default FS-chain content: n storage nodes and k containers of KOwner with an extendable ACL.
func (w *World) SeedFS(nodes, cnrs int) {
	w.FS.SetNodes(nodes)
	for i := 0; i < cnrs; i++ {
		_, info, id := NewContainer(KOwner, 1_000_000+uint32(i), 1, acl.PublicRWExtended, "", "")
		w.FS.AddContainer(id, info)
	}
}
