//go:build verif

package object

// Seam of the node-level C04 check (rules/objsvc-c04n.json): the call of
// objectcore.MergeSearchResults in Server.ProcessSearch is redirected here.  Production feeds the
// merge with the per-node result sets in the order the node goroutines happen to answer; the
// check needs that order to be a choice of the tape.  Without an installed hook this is a plain
// pass-through.

import (
	"sync/atomic"

	objectcore "github.com/nspcc-dev/neofs-node/pkg/core/object"
	"github.com/nspcc-dev/neofs-sdk-go/client"
)

type zzverifSearchSeam struct{}

var zzverifSearch zzverifSearchSeam

// zzverifMergeOrder, when set, may reorder sets and mores (same permutation for both, in place)
// right before the real merge runs.
var zzverifMergeOrder atomic.Pointer[func(sets [][]client.SearchResultItem, mores []bool)]

func (zzverifSearchSeam) MergeSearchResults(lim uint16, firstAttr string, cmpInt bool, sets [][]client.SearchResultItem, mores []bool) ([]client.SearchResultItem, bool, error) {
	if f := zzverifMergeOrder.Load(); f != nil {
		(*f)(sets, mores)
	}
	return objectcore.MergeSearchResults(lim, firstAttr, cmpInt, sets, mores)
}
