package engine

import (
	"bytes"
	"fmt"
	"sort"
	"strings"

	zz "github.com/nspcc-dev/neofs-node/internal/zzverif"
	"github.com/nspcc-dev/neofs-node/pkg/local_object_storage/shard/mode"
	"github.com/nspcc-dev/neofs-sdk-go/object"
	oid "github.com/nspcc-dev/neofs-sdk-go/object/id"
	"verif/simkit"
)

// ---------------------------------------------------------------------------------------
// C19: evacuation keeps every available object available on the remaining shards

func propC19() *simkit.Property {
	return &simkit.Property{
		ID: "C19", Level: "exploration", Bubble: true, TapeLimit: 4000,
		Rule: "each run = an engine with 2-4 shards populated with 4-9 objects (regular objects with 1-2 copies on drawn shards, EC parts placed by their parent ID, tombstones and locks stored on drawn shard subsets), then a drawn subset of shards is switched to read-only (sometimes degraded-read-only) and evacuated; some of the remaining shards are read-only, and Put visits to the remaining shards are failed by the simulator at a drawn rate (before or after taking effect); in some runs a fault handler takes the objects no shard accepted; Get/Head of drawn objects run concurrently with the evacuation; every engine->shard call of the evacuation is a scheduling point.  Oracle: (1) if Evacuate returns nil, every object that a source shard reported available before (Exists and Get succeed) is readable with identical bytes from a remaining shard or was handed to the fault handler; (2) always: the source shards hold exactly the blobs and answer Exists/IsLocked exactly as before; (3) always: the engine-wide status of every object (removed on some shard / available on some shard / unknown, locked on some shard) is unchanged.  distinct = trace digest; non-trivial = evacuation moved >=1 object with >=1 failed put, read-only target or fault-handler call",
		Run:  runC19,
		Assumptions: []string{"write-cache disabled", "no epoch change during the evacuation"},
		Components:  engineComponents,
		DeadlockClass: "hang",
	}
}

type shView struct {
	blob   bool
	exists string // true | false | removed | err:<class>
	avail  bool   // Exists true and Get returns the stored bytes
	locked string
}

func errClass(err error) string {
	switch {
	case err == nil:
		return "ok"
	case isRemoved(err):
		return "removed"
	case isGone(err):
		return "notfound"
	}
	s := err.Error()
	if len(s) > 40 {
		s = s[:40]
	}
	return "err:" + s
}

// view: what shard i answers about object id (exclusive / pass mode only).
func (w *enWorld) view(i, id int) shView {
	s := w.shards[i]
	a := w.addr(id)
	var v shView
	v.blob, _ = s.fst.Exists(a)
	ex, err := s.sh.Exists(a, false)
	switch {
	case err != nil:
		v.exists = errClass(err)
	case ex:
		v.exists = "true"
	default:
		v.exists = "false"
	}
	if ex && err == nil && !w.u.Specs[id].Virtual {
		if o, gerr := s.sh.Get(a, false); gerr == nil && bytes.Equal(o.Marshal(), w.bin(id)) {
			v.avail = true
		}
	}
	if l, lerr := s.sh.IsLocked(a); lerr != nil {
		v.locked = errClass(lerr)
	} else {
		v.locked = fmt.Sprint(l)
	}
	return v
}

// engineStatus: shard-order independent status of an object over all shards.
func (w *enWorld) engineStatus(id int) string {
	removed, avail, locked := false, false, false
	for i := range w.shards {
		v := w.view(i, id)
		if v.exists == "removed" {
			removed = true
		}
		if v.avail {
			avail = true
		}
		if v.locked == "true" {
			locked = true
		}
	}
	st := "unknown"
	switch {
	case removed:
		st = "removed"
	case avail:
		st = "available"
	}
	if locked {
		st += "+locked"
	}
	return st
}

func runC19(r *simkit.R) {
	cfg := drawEnCfg(r, 2, 4)
	cfg.threshold = 0
	nreg := 3 + r.Intn(4)
	ntomb, nlock := r.Intn(3), r.Intn(3)
	n := nreg + ntomb + nlock
	w := newEnWorld(r, cfg, n+1)
	w.layout(nreg, ntomb, nlock, r.Bool(50))
	w.start()
	r.Logf("config %s", cfg)
	for id := 0; id < n; id++ {
		r.Logf("  spec %s", w.u.Specs[id])
	}
	// populate
	w.exclusive("populate", func() {
		for id := 0; id < n; id++ {
			sp := w.u.Specs[id]
			obj := w.u.Build(sp)
			var on []int
			switch {
			case sp.Kind != zz.KReg:
				// tombstones and locks: all shards, or a drawn non-empty subset
				for i := range w.shards {
					if r.Bool(70) {
						on = append(on, i)
					}
				}
				if len(on) == 0 {
					on = []int{r.Intn(len(w.shards))}
				}
			default:
				if r.Bool(15) {
					continue // never stored
				}
				on = []int{r.Intn(len(w.shards))}
				if r.Bool(30) {
					on = append(on, r.Intn(len(w.shards)))
				}
			}
			for _, i := range on {
				err := w.shards[i].sh.Put(obj, nil)
				r.Logf("  populate o%d on s%d -> %v", id, i, errS(err))
			}
		}
	})
	// sources and target modes
	nsrc := 1 + r.Intn(len(w.shards)-1)
	withHandler := r.Bool(35)
	if withHandler && r.Bool(30) {
		nsrc = len(w.shards)
	}
	perm := r.Perm(len(w.shards))
	isSrc := map[int]bool{}
	var srcs []int
	for _, i := range perm[:nsrc] {
		isSrc[i] = true
		srcs = append(srcs, i)
	}
	sort.Ints(srcs)
	degradedSrc := false
	w.exclusive("modes", func() {
		for _, i := range srcs {
			m := mode.ReadOnly
			if r.Bool(12) {
				m = mode.DegradedReadOnly
				degradedSrc = true
			}
			if err := w.e.SetShardMode(w.shards[i].id, m, false); err != nil {
				r.Failf("infra", "set mode", "set mode: %v", err)
			}
		}
		for i := range w.shards {
			if !isSrc[i] && r.Bool(20) {
				_ = w.e.SetShardMode(w.shards[i].id, mode.ReadOnly, false)
				r.Fired("remaining shard is read-only")
			}
		}
	})
	r.Logf("evacuate %v (handler=%v degraded source=%v)", srcs, withHandler, degradedSrc)

	type snap struct {
		views  map[[2]int]shView
		status map[int]string
	}
	take := func() snap {
		s := snap{views: map[[2]int]shView{}, status: map[int]string{}}
		w.exclusive("snapshot", func() {
			for id := 0; id < n; id++ {
				for i := range w.shards {
					s.views[[2]int{i, id}] = w.view(i, id)
				}
				s.status[id] = w.engineStatus(id)
			}
		})
		return s
	}
	before := take()

	handed := map[oid.Address]bool{}
	var handler func(oid.Address, *object.Object) error
	if withHandler {
		handler = func(a oid.Address, o *object.Object) error {
			handed[a] = true
			return nil
		}
	}
	faultPct := []int{0, 10, 30}[r.Intn(3)]
	ev := &enOp{kind: "evacuate", srcs: srcs, flag: r.Bool(30)}
	var ops []*enOp
	ops = append(ops, ev)
	for i, k := 0, r.Intn(4); i < k; i++ {
		ops = append(ops, &enOp{kind: []string{"get", "head"}[r.Intn(2)], id: r.Intn(nreg)})
	}
	next := 0
	disturbed := false
	byTask := map[*simkit.Task]*enOp{}
	res := w.sched(enHooks{
		maxConc: 2,
		next: func() (string, func(*simkit.Task)) {
			if next >= len(ops) {
				return "", nil
			}
			op := ops[next]
			next++
			if op.kind == "evacuate" {
				return op.kind, func(t *simkit.Task) {
					byTask[t] = op
					var ids = w.shardIDs(op.srcs)
					op.n, op.err = w.e.Evacuate(ctxBG, ids, op.flag, handler)
				}
			}
			return op.kind, func(t *simkit.Task) { byTask[t] = op; w.exec(op) }
		},
		verdict: func(key string) int {
			f := strings.Split(key, ":")
			if f[1] != "put" || faultPct == 0 || !r.Bool(faultPct) {
				return vOK
			}
			disturbed = true
			if r.Bool(40) {
				r.Fired("shard put fails after taking effect")
				return vAfterErr
			}
			r.Fired("shard put fails")
			return vErr
		},
		done: func(t *simkit.Task) {
			if op := byTask[t]; op != nil {
				r.Op("%s -> %v (moved %d)", op, errS(op.err), op.n)
			}
		},
	})
	if res == "hang" || res == "steps" {
		w.failHang(res)
	}
	if res != "" {
		return
	}
	after := take()
	if ev.n > 0 && (disturbed || len(handed) > 0) {
		r.Nontrivial()
	}
	if len(handed) > 0 {
		r.Fired("fault handler took an object")
	}
	// (2) sources untouched
	for _, i := range srcs {
		for id := 0; id < n; id++ {
			b, a := before.views[[2]int{i, id}], after.views[[2]int{i, id}]
			if b != a {
				r.Failf("evacuate", "evacuation changed a source shard", "source shard s%d answers differently about o%d after the evacuation: before %+v, after %+v", i, id, b, a)
			}
		}
	}
	// (3) statuses unchanged
	for id := 0; id < n; id++ {
		if before.status[id] != after.status[id] {
			r.Failf("evacuate", fmt.Sprintf("evacuation changed an object's status: %s -> %s", before.status[id], after.status[id]), "o%d (%s): engine-wide status was %q before the evacuation and is %q after it (evacuate -> %v)", id, w.u.Specs[id], before.status[id], after.status[id], errS(ev.err))
		}
	}
	// (1) success => available on the remaining shards
	if ev.err != nil {
		r.Probe("evacuation failed: " + errClass(ev.err))
		return
	}
	for id := 0; id < n; id++ {
		onSrc := false
		for _, i := range srcs {
			if before.views[[2]int{i, id}].avail {
				onSrc = true
			}
		}
		if !onSrc || handed[w.addr(id)] {
			continue
		}
		if strings.HasPrefix(before.status[id], "removed") {
			// some shard already knew a tombstone of it: engine-wide it was not an available
			// object before the evacuation (and (3) checks that it stays removed)
			r.Probe("object served by a source shard was already removed on another shard")
			continue
		}
		ok := false
		for i := range w.shards {
			if !isSrc[i] && after.views[[2]int{i, id}].avail {
				ok = true
			}
		}
		if !ok {
			tag := ""
			if degradedSrc {
				tag = " [a source shard is in degraded-read-only mode: it is skipped silently]"
			}
			r.Failf("evacuate", "object available on an evacuated shard is not available on the remaining shards after a successful evacuation"+tag, "o%d (%s) was available on an evacuated shard; Evacuate returned nil (moved %d) but no remaining shard serves it", id, w.u.Specs[id], ev.n)
		}
	}
}
