package timers

// C40: epoch timers fire each tick exactly once per epoch, at the right time.
//
// The real EpochTimers (NewTimers / Reset / UpdateTime) is driven with seeded histories of
// resets and block-time observations issued by 1-3 logical clients.  Every call runs on its
// own goroutine; the tick handlers are the harness's own code and double as the seam: a
// handler reports to the seeded scheduler and may be left parked there (inside the call,
// i.e. wherever the implementation is when it invokes a handler) while the scheduler
// starts further calls.  Oracle: reference model M5 written from the statement; histories
// without overlapping calls are checked call by call, histories with overlapping calls
// are checked for linearizability against the same model.

import (
	"fmt"
	"runtime"
	"strconv"
	"strings"
	"sync"
	"testing"
	"time"

	"verif/simkit"
)

const (
	tMaxH  = 8                      // at most 3 new-epoch + 5 sub-epoch handlers
	tHang  = 3 * time.Second        // real time after which a call that reports nothing is a hang
	tProbe = 600 * time.Microsecond // real time given to a call started while another one sits in a handler
)

type tFrac struct{ mul, div uint32 }

// tIn / tOut: one call and what it made fire (count per handler).
type tIn struct {
	reset        bool
	last, dur, t uint64
}
type tOut [tMaxH]uint8

// tModel is M5: the state the statement talks about.
type tModel struct {
	armed     bool // a reset has happened
	last, dur uint64
	fired     [tMaxH]bool // handler already fired since the last reset (or since creation)
}

type tCfg struct {
	nE   int
	subs []tFrac
	base uint64
}

func (c *tCfg) nH() int { return c.nE + len(c.subs) }
func (c *tCfg) hname(h int) string {
	if h < c.nE {
		return fmt.Sprintf("E%d", h)
	}
	s := c.subs[h-c.nE]
	return fmt.Sprintf("S%d(%d/%d)", h-c.nE, s.mul, s.div)
}
func (c *tCfg) hkind(h int) string {
	if h < c.nE {
		return "epoch-handler"
	}
	return "sub-epoch-handler"
}

// subWindow returns the scheduled time of a sub-epoch handler: the exact value
// last + dur*mul/div lies in [lo, hi]; lo == hi when it is an integer.  The statement does not
// say how a fractional schedule is rounded, so both roundings are accepted.
func subWindow(last, dur uint64, f tFrac) (lo, hi uint64) {
	num := dur * uint64(f.mul)
	lo = last + num/uint64(f.div)
	hi = lo
	if num%uint64(f.div) != 0 {
		hi++
	}
	return
}

// allowed says whether handler h may stay silent / may fire (once) in an UpdateTime(t) call
// made in state st.
func (c *tCfg) allowed(st tModel, h int, t uint64) (may0, may1 bool) {
	if st.fired[h] {
		return true, false // nothing fires again until the next reset
	}
	if !st.armed {
		return true, true // before the first reset the statement fixes nothing but "once"
	}
	if h < c.nE {
		if t >= st.last+st.dur {
			return false, true
		}
		return true, false
	}
	lo, hi := subWindow(st.last, st.dur, c.subs[h-c.nE])
	switch {
	case t < lo:
		return true, false
	case t >= hi:
		return false, true
	}
	return true, true
}

// step applies one call to M5.  bad == "" when the observed output is legal.
func (c *tCfg) step(st tModel, in tIn, out tOut) (ns tModel, bad string, badH int) {
	if in.reset {
		for h := 0; h < c.nH(); h++ {
			if out[h] != 0 {
				return st, "fired-by-reset", h
			}
		}
		return tModel{armed: true, last: in.last, dur: in.dur}, "", 0
	}
	ns = st
	for h := 0; h < c.nH(); h++ {
		may0, may1 := c.allowed(st, h, in.t)
		switch out[h] {
		case 0:
			if !may0 {
				return st, "missed", h
			}
		case 1:
			if !may1 {
				if st.fired[h] {
					return st, "fired-again-without-reset", h
				}
				return st, "fired-early", h
			}
			ns.fired[h] = true
		default:
			return st, "fired-more-than-once-in-one-update", h
		}
	}
	return ns, "", 0
}

const (
	tevAt = iota
	tevDone
	tevPanic
)

type tEvent struct {
	kind int
	h    int
	msg  string
}

const (
	tsRunning = iota
	tsParked
	tsBlocked
	tsDone
)

type tTask struct {
	id        int
	in        tIn
	ev        chan tEvent
	res       chan struct{}
	out       tOut
	state     int
	call, ret uint64
	overl     bool
}

type tWorld struct {
	r   *simkit.R
	cfg *tCfg
	et  *EpochTimers

	mu   sync.Mutex
	byG  map[uint64]*tTask
	quit chan struct{}
	wg   sync.WaitGroup

	conc        int
	seq         uint64
	nextID      int
	live        []*tTask
	blocked     *tTask
	parks       int
	everOverlap bool
	m           tModel // valid while !everOverlap
	hist        []simkit.LinOp
	histTxt     []string

	// generator state
	curT            int64
	haveReset       bool
	gLast, gDur     int64
	maxSeen         int64
	epochFires      int
	subFires        int
	faults          int
}

func tGoid() uint64 {
	var buf [64]byte
	n := runtime.Stack(buf[:], false)
	s := strings.TrimPrefix(string(buf[:n]), "goroutine ")
	if i := strings.IndexByte(s, ' '); i > 0 {
		id, _ := strconv.ParseUint(s[:i], 10, 64)
		return id
	}
	return 0
}

func (w *tWorld) handler(h int) Tick {
	return func() {
		g := tGoid()
		w.mu.Lock()
		tk := w.byG[g]
		w.mu.Unlock()
		if tk == nil {
			w.r.Report("timers-fire", "handler-outside-call", "handler %s was invoked from a goroutine that is not executing UpdateTime/Reset", w.cfg.hname(h))
			return
		}
		select {
		case tk.ev <- tEvent{kind: tevAt, h: h}:
		case <-w.quit:
			return
		}
		select {
		case <-tk.res:
		case <-w.quit:
		}
	}
}

func (w *tWorld) rel(t uint64) string {
	return fmt.Sprintf("%+d", int64(t-w.cfg.base))
}

func (w *tWorld) inStr(in tIn) string {
	if in.reset {
		return fmt.Sprintf("Reset(last=%s, dur=%d)", w.rel(in.last), in.dur)
	}
	return fmt.Sprintf("UpdateTime(%s)", w.rel(in.t))
}

func (w *tWorld) outStr(o tOut) string {
	var parts []string
	for h := 0; h < w.cfg.nH(); h++ {
		if o[h] == 1 {
			parts = append(parts, w.cfg.hname(h))
		} else if o[h] > 1 {
			parts = append(parts, fmt.Sprintf("%s x%d", w.cfg.hname(h), o[h]))
		}
	}
	if len(parts) == 0 {
		return "-"
	}
	return strings.Join(parts, " ")
}

func (w *tWorld) spawn(in tIn) *tTask {
	tk := &tTask{id: w.nextID, in: in, ev: make(chan tEvent, 32), res: make(chan struct{})}
	w.nextID++
	w.wg.Add(1)
	go func() {
		defer w.wg.Done()
		g := tGoid()
		w.mu.Lock()
		w.byG[g] = tk
		w.mu.Unlock()
		defer func() {
			x := recover()
			w.mu.Lock()
			delete(w.byG, g)
			w.mu.Unlock()
			if x != nil {
				tk.ev <- tEvent{kind: tevPanic, msg: fmt.Sprint(x)}
				return
			}
			tk.ev <- tEvent{kind: tevDone}
		}()
		if in.reset {
			w.et.Reset(in.last, in.dur)
		} else {
			w.et.UpdateTime(in.t)
		}
	}()
	return tk
}

func (w *tWorld) await(tk *tTask, d time.Duration) (tEvent, bool) {
	select {
	case ev := <-tk.ev:
		return ev, true
	default:
	}
	tm := time.NewTimer(d)
	defer tm.Stop()
	select {
	case ev := <-tk.ev:
		return ev, true
	case <-tm.C:
		return tEvent{}, false
	}
}

func (w *tWorld) parkedCount() int {
	n := 0
	for _, t := range w.live {
		if t.state == tsParked {
			n++
		}
	}
	return n
}

// drive follows a running call until it parks inside a handler or returns.  It returns false
// if nothing was heard from the call within the first waiting period (only used with tProbe:
// the call is then taken to be waiting for a lock held by a parked call).
func (w *tWorld) drive(tk *tTask, first time.Duration) bool {
	d := first
	for {
		ev, ok := w.await(tk, d)
		if !ok {
			if d == tHang {
				kind := "UpdateTime"
				if tk.in.reset {
					kind = "Reset"
				}
				w.r.Failf("timers-hang", kind, "c%d %s does not return and does not reach a handler (%d call(s) parked in handlers)", tk.id, w.inStr(tk.in), w.parkedCount())
			}
			return false
		}
		d = tHang
		tk.state = tsRunning
		switch ev.kind {
		case tevPanic:
			w.r.Failf("panic", "timers-call", "c%d %s panicked: %s", tk.id, w.inStr(tk.in), ev.msg)
		case tevDone:
			w.finish(tk)
			return true
		case tevAt:
			if tk.out[ev.h] < 200 {
				tk.out[ev.h]++
			}
			w.r.Logf("  c%d: %s fires", tk.id, w.cfg.hname(ev.h))
			if ev.h < w.cfg.nE {
				w.epochFires++
			} else {
				w.subFires++
			}
			if w.conc > 1 && w.parks < 6 && w.r.Bool(35) {
				w.parks++
				tk.state = tsParked
				w.r.Logf("  c%d stays inside the handler", tk.id)
				w.r.Probe("call-parked-inside-handler")
				return true
			}
			tk.res <- struct{}{}
		}
	}
}

func (w *tWorld) finish(tk *tTask) {
	tk.state = tsDone
	tk.ret = w.seq
	w.seq++
	for i, t := range w.live {
		if t == tk {
			w.live = append(w.live[:i], w.live[i+1:]...)
			break
		}
	}
	w.r.Logf("  c%d: %s done, fired: %s", tk.id, w.inStr(tk.in), w.outStr(tk.out))
	w.hist = append(w.hist, simkit.LinOp{Client: tk.id, Key: "et", In: tk.in, Out: tk.out, Call: tk.call, Ret: tk.ret})
	w.histTxt = append(w.histTxt, fmt.Sprintf("[%d,%d] c%d %s -> %s", tk.call, tk.ret, tk.id, w.inStr(tk.in), w.outStr(tk.out)))
	nf := 0
	for h := 0; h < w.cfg.nH(); h++ {
		nf += int(tk.out[h])
	}
	if nf >= 2 {
		w.r.Probe("one-update-fires-several-handlers")
	}
	if !w.everOverlap {
		w.checkSeq(tk)
	}
	if b := w.blocked; b != nil {
		// the lock holder may have just released the lock
		d := tHang
		if w.parkedCount() > 0 {
			d = tProbe
		}
		w.blocked = nil
		if !w.drive(b, d) {
			w.blocked = b
		}
	}
}

// checkSeq: call-by-call oracle for histories without overlapping calls.
func (w *tWorld) checkSeq(tk *tTask) {
	c := w.cfg
	st := w.m
	if !tk.in.reset && st.armed {
		for i, s := range c.subs {
			lo, hi := subWindow(st.last, st.dur, s)
			if !st.fired[c.nE+i] && lo != hi && tk.in.t == lo {
				w.r.Probe("update-inside-rounding-window")
			}
		}
		if c.nE > 0 && !st.fired[0] && tk.in.t == st.last+st.dur {
			w.r.Probe("update-exactly-at-epoch-end")
		}
	}
	if tk.in.reset && st.armed {
		ef := true
		for h := 0; h < c.nH(); h++ {
			if !st.fired[h] {
				ef = false
			}
		}
		if ef {
			w.r.Probe("reset-after-everything-fired")
		} else {
			w.r.Probe("reset-with-handlers-pending")
		}
	}
	ns, bad, h := c.step(st, tk.in, tk.out)
	if bad != "" {
		desc := "no reset yet"
		if st.armed {
			desc = fmt.Sprintf("last reset: last=%s dur=%d (epoch end %s)", w.rel(st.last), st.dur, w.rel(st.last+st.dur))
			if h >= c.nE {
				lo, hi := subWindow(st.last, st.dur, c.subs[h-c.nE])
				desc += fmt.Sprintf(", %s scheduled at %s..%s", c.hname(h), w.rel(lo), w.rel(hi))
			}
		}
		w.r.Failf("timers-fire", bad+":"+c.hkind(h), "%s: handler %s %s (fired %d time(s) in this call, already fired since reset: %v); %s", w.inStr(tk.in), c.hname(h), bad, tk.out[h], st.fired[h], desc)
	}
	w.m = ns
}

func (w *tWorld) startOp(in tIn) {
	others := len(w.live)
	tk := w.spawn(in)
	tk.call = w.seq
	w.seq++
	w.r.Op("c%d: %s", tk.id, w.inStr(in))
	if others > 0 {
		tk.overl = true
		for _, t := range w.live {
			t.overl = true
		}
		w.everOverlap = true
		w.r.Fired("concurrent-call")
		w.faults++
	}
	w.live = append(w.live, tk)
	d := tHang
	if w.parkedCount() > 0 {
		d = tProbe
	}
	if !w.drive(tk, d) {
		tk.state = tsBlocked
		w.blocked = tk
		w.r.Logf("  c%d does not proceed while another call is inside a handler (waits for the lock)", tk.id)
		w.r.Probe("call-waits-for-lock")
	} else if others > 0 && tk.state != tsBlocked {
		w.r.Probe("call-proceeded-while-another-inside-handler")
	}
}

func (w *tWorld) resume(tk *tTask) {
	w.r.Logf("  c%d leaves the handler", tk.id)
	tk.state = tsRunning
	tk.res <- struct{}{}
	w.drive(tk, tHang)
}

var tDurs = []int64{10, 1, 2, 3, 4, 5, 6, 7, 12, 60, 1000, 240000, 0}

func (w *tWorld) clampT(t int64) int64 {
	if t < 0 {
		return 0
	}
	return t
}

// genOp draws the next call.  Times are offsets from cfg.base.
func (w *tWorld) genOp() tIn {
	r := w.r
	b := int64(w.cfg.base)
	reset := false
	if !w.haveReset {
		reset = !r.Bool(15)
		if !reset {
			r.Probe("update-before-first-reset")
		}
	} else {
		reset = r.Weighted(72, 28) == 1
	}
	if reset {
		dur := tDurs[r.Intn(len(tDurs))]
		var last int64
		switch r.Weighted(50, 15, 10, 15, 5, 5) {
		case 0:
			last = w.curT
		case 1:
			last = w.curT - int64(r.Range(1, 3))
			r.Fired("reset-stale-last")
		case 2:
			last = w.curT + int64(r.Range(1, 3))
			r.Fired("reset-future-last")
		case 3:
			last = w.curT - int64(r.Range(0, int(min(dur, 1000))))
			r.Fired("reset-stale-last")
		case 4:
			last = w.curT - 3*max(dur, 5)
			r.Fired("reset-stale-last")
		case 5:
			last = w.curT + 3*max(dur, 5)
			r.Fired("reset-future-last")
		}
		last = w.clampT(last)
		w.haveReset = true
		w.gLast, w.gDur = last, dur
		w.maxSeen = -1
		return tIn{reset: true, last: uint64(b + last), dur: uint64(dur)}
	}
	t := w.curT
	d := max(w.gDur, 1)
	switch r.Weighted(28, 8, 10, 30, 10, 9, 5) {
	case 0:
		t = w.curT + 1
	case 1:
		r.Fired("time-repeat")
		w.faults++
	case 2:
		t = w.curT + int64(r.Range(2, 5))
	case 3:
		// around a scheduled point of the current epoch
		target := w.gLast + w.gDur
		if n := len(w.cfg.subs); n > 0 {
			if k := r.Intn(n + 1); k > 0 {
				s := w.cfg.subs[k-1]
				target = w.gLast + w.gDur*int64(s.mul)/int64(s.div)
			}
		}
		t = target + int64(r.Range(-1, 1))
	case 4:
		t = w.curT - int64(r.Range(1, int(min(d, 50))))
	case 5:
		t = w.curT + int64(r.Range(1, int(min(2*d, 2000))))
		r.Fired("time-jump")
		w.faults++
	case 6:
		t = w.curT + 3*d + int64(r.Intn(5))
		r.Fired("time-jump")
		w.faults++
	}
	t = w.clampT(t)
	if t < w.maxSeen {
		r.Fired("time-backwards")
		w.faults++
	}
	if t > w.maxSeen {
		w.maxSeen = t
	}
	w.curT = t
	return tIn{t: uint64(b + t)}
}

func runC40(r *simkit.R) {
	cfg := &tCfg{}
	bi := r.Intn(3)
	cfg.base = []uint64{1000, 0, 1_700_000_000_000}[bi]
	cfg.nE = []int{1, 2, 0, 3}[r.Intn(4)]
	nS := []int{2, 1, 0, 3, 4, 5}[r.Intn(6)]
	divs := []uint32{2, 1, 3, 4, 5, 7, 10, 1000, 240000}
	for i := 0; i < nS; i++ {
		dv := divs[r.Intn(len(divs))]
		var ml uint32
		switch r.Weighted(60, 15, 15, 10) {
		case 0:
			ml = uint32(r.Range(1, int(dv)))
		case 1:
			ml = dv // the whole epoch
		case 2:
			ml = 0 // immediately
		case 3:
			ml = uint32(r.Range(0, int(dv)))
			k := uint32(r.Range(2, 3)) // non-reduced fraction
			ml, dv = ml*k, dv*k
		}
		cfg.subs = append(cfg.subs, tFrac{ml, dv})
	}
	w := &tWorld{r: r, cfg: cfg, byG: map[uint64]*tTask{}, quit: make(chan struct{})}
	w.conc = []int{1, 2, 1, 3}[r.Intn(4)]
	var ticks EpochTicks
	for h := 0; h < cfg.nE; h++ {
		ticks.NewEpochTicks = append(ticks.NewEpochTicks, w.handler(h))
	}
	var sdesc []string
	for i, s := range cfg.subs {
		ticks.DeltaTicks = append(ticks.DeltaTicks, SubEpochTick{Tick: w.handler(cfg.nE + i), EpochMul: s.mul, EpochDiv: s.div})
		sdesc = append(sdesc, fmt.Sprintf("%d/%d", s.mul, s.div))
	}
	w.et = NewTimers(ticks)
	r.OnCleanup(func() {
		close(w.quit)
		done := make(chan struct{})
		go func() { w.wg.Wait(); close(done) }()
		select {
		case <-done:
		case <-time.After(tHang):
		}
	})
	nops := 6 + r.Intn(30)
	r.Logf("config: base#%d, %d new-epoch handler(s), sub-epoch fractions [%s], %d client(s), %d calls", bi, cfg.nE, strings.Join(sdesc, " "), w.conc, nops)

	issued := 0
	for steps := 0; steps < 400; steps++ {
		r.Step()
		var parked []*tTask
		for _, t := range w.live {
			if t.state == tsParked {
				parked = append(parked, t)
			}
		}
		canStart := issued < nops && len(w.live) < w.conc && w.blocked == nil
		n := len(parked)
		if canStart {
			n++
		}
		if n == 0 {
			if len(w.live) > 0 {
				// only a blocked call is left although nobody is parked: it never got the lock
				w.r.Failf("timers-hang", "lock-never-released", "c%d %s still waits although no other call is in progress", w.live[0].id, w.inStr(w.live[0].in))
			}
			break
		}
		k := 0
		if n > 1 {
			k = r.Intn(n)
		}
		if canStart && k == n-1 {
			issued++
			w.startOp(w.genOp())
		} else {
			w.resume(parked[k])
		}
	}
	if w.everOverlap {
		bad, unknown := simkit.CheckLinearizable(w.hist, func(string) any { return tModel{} },
			func(st, in, out any) (bool, any) {
				ns, b, _ := cfg.step(st.(tModel), in.(tIn), out.(tOut))
				return b == "", ns
			}, 5*time.Second)
		if unknown {
			r.Probe("linearizability-inconclusive")
		}
		if bad != "" {
			r.Failf("timers-fire", "concurrent-history-not-linearizable", "no sequential order of the overlapping calls explains the handler invocations (M5):\n%s", strings.Join(w.histTxt, "\n"))
		}
		r.Probe("concurrent-history-checked")
	}
	if w.haveReset && w.epochFires+w.subFires > 0 && (w.subFires > 0 || len(cfg.subs) == 0) && (w.epochFires > 0 || cfg.nE == 0) && w.faults > 0 {
		r.Nontrivial()
	}
}

func TestVerif(t *testing.T) {
	simkit.Main(t, &simkit.Property{
		ID: "C40", Level: "exploration", Bubble: false, TapeLimit: 2000,
		Rule: "each run = one EpochTimers instance with 0-3 new-epoch handlers and 0-5 sub-epoch handlers (fractions mul/div in [0,1], reduced and non-reduced, divisors 1..240000) and a seeded history of 6-35 calls issued by 1-3 logical clients: Reset(last,dur) with last at, before or after the latest observed block time (durations 0..240000 ms, three time bases) and UpdateTime(t) with t stepping forward, repeating, moving backwards, landing on/next to every scheduled point, and jumping over one or several epochs; updates before the first reset included. Every call runs on its own goroutine; the tick handlers report to the seeded scheduler, which may leave a call parked inside a handler and start or resume other calls meanwhile (a call that then does not proceed within 0.6 ms of real time is taken to wait for the lock and is followed once the holder returns). Oracle M5 from the statement: after Reset the new-epoch handlers fire exactly once in the first update with t >= last+dur, sub-epoch handler i exactly once in the first update with t >= last+dur*mul/div (either rounding accepted), Reset itself fires nothing, nothing fires twice without a reset; histories without overlap are checked call by call, histories with overlapping calls by a linearizability check against M5. distinct = trace digest; non-trivial = a reset happened, handlers of every configured kind fired, and >= 1 time anomaly (repeat/backwards/jump) or overlapping call occurred",
		Run:  runC40,
		Assumptions: []string{
			"sub-epoch fractions are within [0,1] (a sub-epoch tick; larger fractions are outside the statement)",
			"a fractional schedule last+dur*mul/div may be rounded down or up",
			"before the first Reset only at-most-once firing is demanded",
			"Reset is not called from inside a handler: the handlers run under the timers' non-reentrant mutex, such a call deadlocks by construction and is outside the API",
			"arithmetic overflow (dur*mul or last+dur beyond 2^64) is outside the small time ranges of the property",
			"overlapping calls are judged by linearizability; a call started while another is parked in a handler is classified as lock-waiting by a real-time probe (0.6 ms), which is deterministic on code that holds the lock during handlers",
		},
		Components: map[string]string{
			"timers.EpochTimers (NewTimers, Reset, UpdateTime, done flags, mutex)": "real",
			"tick handlers":              "harness: count invocations per call, seam where the seeded scheduler parks a call",
			"block times / epoch events": "simulated: seeded sequence of Reset/UpdateTime calls from 1-3 clients",
			"goroutine interleaving":     "seeded at handler boundaries; mutex waits are real",
		},
	})
}
