package simkit

import (
	"encoding/binary"
	"encoding/json"
	"fmt"
	"os"
	"path/filepath"
	"regexp"
	"runtime"
	"runtime/debug"
	"strconv"
	"strings"
	"testing"
	"testing/synctest"
	"time"
)

// Property describes one check: how a single simulated run is executed.  The run itself
// draws its configuration, workload, schedule and faults from r (the Chooser).
type Property struct {
	ID          string
	Level       string // "exploration" | "fault_enumeration"
	Rule        string // how cases are generated and what makes one distinct / non-trivial
	Bubble      bool   // run inside a testing/synctest bubble (fake clock, quiescence detection)
	TapeLimit   int    // max draws per run (default 4000)
	Run         func(r *R)
	Assumptions []string
	Components  map[string]string // component -> "real" | "stub: ..." | "simulated: ..."
	// DeadlockClass, when non-empty, turns a synctest deadlock into a violation of that class
	// (used where "never hangs" is part of the property); otherwise a deadlock is an
	// infrastructure error (exit 2).
	DeadlockClass string
	// PanicIsInfra makes an unexpected panic an infrastructure error instead of a violation.
	PanicIsInfra bool
}

type runOutcome struct {
	viol     *Violation
	infra    string
	digest   uint64
	tape     []uint32
	trace    []string
	faults   map[string]int64
	probes   map[string]int64
	steps    int64
	simTime  time.Duration
	ops      int
	nontriv  bool
	draws    int
	traceCut bool
}

type knownFinding struct {
	Property  string `json:"property"`
	ID        string `json:"id,omitempty"`
	Signature string `json:"signature"`
	Regex     string `json:"signature_regex,omitempty"` // alternative to an exact signature
	Status    string `json:"status"` // "open" | "fixed"
	What      string `json:"what"`
	Commit    string `json:"commit,omitempty"`
}

// WorkerResult is what one worker process reports to the driver.
type WorkerResult struct {
	Property     string            `json:"property"`
	Level        string            `json:"level"`
	Tier         string            `json:"tier"`
	Seed         int64             `json:"seed"`
	Worker       int               `json:"worker"`
	Runs         int64             `json:"runs"`
	NontrivRuns  int64             `json:"nontrivial_runs"`
	HashFile     string            `json:"hash_file"`
	Faults       map[string]int64  `json:"faults_fired"`
	Probes       map[string]int64  `json:"probes"`
	Steps        int64             `json:"steps"`
	Ops          int64             `json:"ops"`
	SimSeconds   float64           `json:"sim_seconds"`
	WallS        float64           `json:"wall_s"`
	Samples      [][]string        `json:"samples"`
	Violations   []ReplayFile      `json:"violations"`
	Known        []string          `json:"known_findings_hit"`
	Infra        string            `json:"infra_error,omitempty"`
	Rule         string            `json:"rule"`
	Assumptions  []string          `json:"assumptions"`
	Components   map[string]string `json:"components"`
	ShrinkRuns   int64             `json:"shrink_runs"`
	ReplayResult string            `json:"replay_result,omitempty"`
}

// ReplayFile is the on-disk replay format.
type ReplayFile struct {
	Property string    `json:"property"`
	RunSeed  uint64    `json:"run_seed"`
	Tier     string    `json:"tier"`
	Tape     []uint32  `json:"tape"`
	Class    string    `json:"class"`
	Sig      string    `json:"signature"`
	Message  string    `json:"message"`
	Digest   string    `json:"trace_digest"`
	Trace    []string  `json:"trace"`
	Path     string    `json:"path,omitempty"`
	Note     string    `json:"note,omitempty"`
	Unshrunk *[]uint32 `json:"unshrunk_tape,omitempty"`
	World    string    `json:"world,omitempty"` // the simulated world (harness package) that produced it
}

func envInt(name string, def int64) int64 {
	if s := os.Getenv(name); s != "" {
		if v, err := strconv.ParseInt(s, 10, 64); err == nil {
			return v
		}
	}
	return def
}

func splitmix(x uint64) uint64 {
	x += 0x9e3779b97f4a7c15
	x = (x ^ (x >> 30)) * 0xbf58476d1ce4e5b9
	x = (x ^ (x >> 27)) * 0x94d049bb133111eb
	return x ^ (x >> 31)
}

func shmBase() string {
	base := "/dev/shm"
	if st, err := os.Stat(base); err != nil || !st.IsDir() {
		base = os.TempDir()
	}
	return base
}

var runCounter int

func execRun(t *testing.T, p *Property, ch *Chooser, tier string, quiet bool) runOutcome {
	runCounter++
	dir := filepath.Join(shmBase(), fmt.Sprintf("verif-%d", os.Getpid()), fmt.Sprintf("r%d", runCounter))
	_ = os.RemoveAll(dir)
	if err := os.MkdirAll(dir, 0o755); err != nil {
		return runOutcome{infra: "mkdir: " + err.Error()}
	}
	defer os.RemoveAll(dir)

	r := newR(ch, tier, dir)
	r.quiet = quiet
	var infra string

	body := func() {
		defer func() {
			// cleanups run inside the bubble, on the run goroutine
			for i := len(r.cleanups) - 1; i >= 0; i-- {
				func() {
					defer func() {
						if x := recover(); x != nil {
							if _, ok := x.(stopRun); !ok {
								r.Report("panic", "cleanup:"+panicSite(), "panic in cleanup: %v\n%s", x, debug.Stack())
							}
						}
					}()
					r.cleanups[i]()
				}()
			}
		}()
		defer func() {
			if x := recover(); x != nil {
				if _, ok := x.(stopRun); ok {
					return
				}
				if p.PanicIsInfra {
					infra = fmt.Sprintf("panic: %v\n%s", x, debug.Stack())
					return
				}
				r.Report("panic", panicSite(), "panic: %v\n%s", x, debug.Stack())
			}
		}()
		p.Run(r)
	}

	done := make(chan struct{})
	go func() {
		defer close(done)
		defer func() {
			if x := recover(); x != nil {
				msg := fmt.Sprint(x)
				if strings.Contains(msg, "deadlock") {
					if os.Getenv("VERIF_DEBUG_STACKS") != "" {
						buf := make([]byte, 1<<20)
						n := runtime.Stack(buf, true)
						msg += "\n" + string(buf[:n])
					}
					if p.DeadlockClass != "" {
						r.Report(p.DeadlockClass, "bubble-deadlock", "all goroutines of the simulated process are blocked and no timer is pending: %s", msg)
					} else {
						infra = "synctest deadlock: " + msg
					}
					return
				}
				infra = fmt.Sprintf("panic outside run: %v\n%s", x, debug.Stack())
			}
		}()
		if p.Bubble {
			synctest.Test(t, func(*testing.T) { body() })
		} else {
			body()
		}
	}()
	wd := time.Duration(envInt("VERIF_RUN_WATCHDOG_S", 180)) * time.Second
	select {
	case <-done:
	case <-time.After(wd):
		buf := make([]byte, 8<<20)
		n := runtime.Stack(buf, true)
		hang := os.Getenv("VERIF_OUT") + ".hang.txt"
		_ = os.WriteFile(hang, buf[:n], 0o644)
		if v := r.violSnapshot(); v != nil {
			// a violation was already recorded; the hang is in cleanup.  Keep the violation.
			return runOutcome{viol: v, infra: "hang-after-violation", digest: r.digest(), tape: ch.Tape(), trace: r.trace}
		}
		return runOutcome{infra: "watchdog: run exceeded " + wd.String() + " of real time; stacks in " + hang, tape: ch.Tape(), trace: r.traceSnapshot()}
	}
	return runOutcome{viol: r.viol, infra: infra, digest: r.digest(), tape: ch.Tape(), trace: r.trace, faults: r.faults,
		probes: r.probes, steps: r.steps, simTime: r.simTime, ops: r.ops, nontriv: r.nontrivial, draws: ch.Draws(), traceCut: r.traceCut}
}

func (r *R) violSnapshot() *Violation { r.mu.Lock(); defer r.mu.Unlock(); return r.viol }
func (r *R) traceSnapshot() []string {
	r.mu.Lock()
	defer r.mu.Unlock()
	return append([]string(nil), r.trace...)
}

func panicSite() string {
	pcs := make([]uintptr, 64)
	n := runtime.Callers(2, pcs)
	frames := runtime.CallersFrames(pcs[:n])
	for {
		f, more := frames.Next()
		fn := f.Function
		if fn != "" && !strings.HasPrefix(fn, "runtime.") && !strings.Contains(fn, "simkit.") && !strings.HasPrefix(fn, "testing.") {
			return fn
		}
		if !more {
			break
		}
	}
	return "unknown"
}

// Main is called from a Test function of a harness package; it runs the worker loop or a replay.
func Main(t *testing.T, p *Property) {
	if os.Getenv("VERIF_PROP") != p.ID {
		return
	}
	if p.TapeLimit == 0 {
		p.TapeLimit = 4000
	}
	tier := os.Getenv("VERIF_TIER")
	if tier == "" {
		tier = "quick"
	}
	seed := envInt("VERIF_SEED", 1)
	worker := int(envInt("VERIF_WORKER", 0))
	budget := time.Duration(envInt("VERIF_BUDGET_S", 10)) * time.Second
	maxRuns := envInt("VERIF_MAXRUNS", 1<<62)
	out := os.Getenv("VERIF_OUT")
	if out == "" {
		out = filepath.Join(os.TempDir(), "verif-worker.json")
		os.Setenv("VERIF_OUT", out)
	}
	known := loadKnown(os.Getenv("VERIF_KNOWN"), p.ID)
	defer os.RemoveAll(filepath.Join(shmBase(), fmt.Sprintf("verif-%d", os.Getpid())))

	res := &WorkerResult{Property: p.ID, Level: p.Level, Tier: tier, Seed: seed, Worker: worker, Faults: map[string]int64{},
		Probes: map[string]int64{}, Rule: p.Rule, Assumptions: p.Assumptions, Components: p.Components}
	start := time.Now()
	writeRes := func() {
		for i := range res.Violations {
			if res.Violations[i].World == "" {
				res.Violations[i].World = os.Getenv("VERIF_WORLD")
			}
		}
		res.WallS = time.Since(start).Seconds()
		b, _ := json.MarshalIndent(res, "", " ")
		_ = os.WriteFile(out, b, 0o644)
	}

	if rp := os.Getenv("VERIF_REPLAY"); rp != "" {
		replayMain(t, p, rp, res, writeRes)
		return
	}

	hashPath := out + ".hashes"
	hf, err := os.Create(hashPath)
	if err != nil {
		res.Infra = err.Error()
		writeRes()
		t.Fatalf("infra: %v", err)
	}
	defer hf.Close()
	res.HashFile = hashPath
	seen := map[uint64]struct{}{}
	knownHit := map[string]bool{}

	for i := int64(0); i < maxRuns; i++ {
		if i > 0 && time.Since(start) > budget {
			break
		}
		runSeed := splitmix(uint64(seed)*1000003 ^ splitmix(uint64(worker)<<32|uint64(i)))
		ch := NewChooser(runSeed, p.TapeLimit)
		o := execRun(t, p, ch, tier, true)
		res.Runs++
		accumulate(res, &o)
		if td := os.Getenv("VERIF_TRACEDIR"); td != "" {
			_ = os.MkdirAll(td, 0o755)
			_ = os.WriteFile(filepath.Join(td, fmt.Sprintf("%d.txt", i)), []byte(strings.Join(o.trace, "\n")+"\n"), 0o644)
		}
		if dp := os.Getenv("VERIF_DIGESTS"); dp != "" {
			if df, err := os.OpenFile(dp, os.O_APPEND|os.O_CREATE|os.O_WRONLY, 0o644); err == nil {
				v := ""
				if o.viol != nil {
					v = " VIOL " + o.viol.Class
				}
				fmt.Fprintf(df, "%d %016x %d%s\n", i, o.digest, len(o.trace), v)
				df.Close()
			}
		}
		if o.infra != "" && o.viol == nil {
			res.Infra = o.infra
			res.Violations = append(res.Violations, ReplayFile{Property: p.ID, RunSeed: runSeed, Tier: tier, Tape: o.tape, Class: "infra", Message: o.infra, Trace: o.trace})
			writeRes()
			t.Fatalf("INFRA property=%s seed=%d: %s", p.ID, runSeed, o.infra)
		}
		if o.viol != nil {
			rf := ReplayFile{Property: p.ID, RunSeed: runSeed, Tier: tier, Tape: o.tape, Class: o.viol.Class, Sig: o.viol.Sig,
				Message: o.viol.Message, Digest: fmt.Sprintf("%016x", o.digest), Trace: o.trace}
			if kf := matchKnown(known, o.viol); kf != nil {
				if !knownHit[kf.ID+kf.Signature+kf.Regex] {
					knownHit[kf.ID+kf.Signature+kf.Regex] = true
					res.Known = append(res.Known, kf.ID+" "+kf.What)
				}
				continue
			}
			// record unshrunk first so that a crash while shrinking loses nothing
			res.Violations = append(res.Violations, rf)
			writeRes()
			if o.infra == "" {
				shr := shrink(t, p, tier, o, res, known)
				res.Violations[len(res.Violations)-1] = shr
			}
			writeRes()
			return // one violation per worker is enough
		}
		if o.nontriv {
			res.NontrivRuns++
			if _, ok := seen[o.digest]; !ok {
				seen[o.digest] = struct{}{}
				var b [8]byte
				binary.LittleEndian.PutUint64(b[:], o.digest)
				hf.Write(b[:])
				if len(res.Samples) < 3 && len(o.trace) > 0 {
					tr := o.trace
					if len(tr) > 60 {
						tr = append(append([]string{}, tr[:58]...), fmt.Sprintf("… (%d more lines)", len(o.trace)-58))
					}
					res.Samples = append(res.Samples, tr)
				}
			}
		}
	}
	writeRes()
}

func accumulate(res *WorkerResult, o *runOutcome) {
	for k, v := range o.faults {
		res.Faults[k] += v
	}
	for k, v := range o.probes {
		res.Probes[k] += v
	}
	res.Steps += o.steps
	res.Ops += int64(o.ops)
	res.SimSeconds += o.simTime.Seconds()
}

func loadKnown(path, prop string) []knownFinding {
	if path == "" {
		return nil
	}
	b, err := os.ReadFile(path)
	if err != nil {
		return nil
	}
	var doc struct {
		Findings []knownFinding `json:"findings"`
	}
	if json.Unmarshal(b, &doc) != nil {
		return nil
	}
	var out []knownFinding
	for _, f := range doc.Findings {
		if f.Property == prop && f.Status == "open" {
			out = append(out, f)
		}
	}
	return out
}

func matchKnown(known []knownFinding, v *Violation) *knownFinding {
	full := v.Class + "|" + v.Sig
	for i := range known {
		if known[i].Signature == full {
			return &known[i]
		}
		if known[i].Regex != "" {
			if re, err := regexp.Compile("^(?:" + known[i].Regex + ")$"); err == nil && re.MatchString(full) {
				return &known[i]
			}
		}
	}
	return nil
}

func sameViolation(a, b *Violation) bool {
	return a != nil && b != nil && a.Class == b.Class && a.Sig == b.Sig
}

// shrink minimises the failing tape while the same violation (class + signature) persists.
func shrink(t *testing.T, p *Property, tier string, o runOutcome, res *WorkerResult, known []knownFinding) ReplayFile {
	deadline := time.Now().Add(time.Duration(envInt("VERIF_SHRINK_S", 90)) * time.Second)
	best := append([]uint32(nil), o.tape...)
	bestOut := o
	unshrunk := append([]uint32(nil), o.tape...)
	try := func(cand []uint32) bool {
		if time.Now().After(deadline) {
			return false
		}
		res.ShrinkRuns++
		oo := execRun(t, p, NewReplayChooser(cand), tier, true)
		if oo.infra == "" && sameViolation(oo.viol, o.viol) {
			best = append([]uint32(nil), oo.tape...) // normalised + trimmed
			bestOut = oo
			return true
		}
		return false
	}
	// confirm determinism of the failure first
	if !try(best) {
		rf := ReplayFile{Property: p.ID, Tier: tier, Tape: o.tape, Class: o.viol.Class, Sig: o.viol.Sig, Message: o.viol.Message,
			Digest: fmt.Sprintf("%016x", o.digest), Trace: o.trace, Note: "violation did not reproduce on immediate in-process replay of its tape (non-determinism)"}
		return rf
	}
	for pass := 0; pass < 6 && time.Now().Before(deadline); pass++ {
		before := len(best)
		beforeSum := tapeSum(best)
		// 1. prefix truncation (binary search)
		lo, hi := 0, len(best)
		for lo < hi {
			mid := (lo + hi) / 2
			if try(best[:mid]) {
				hi = min(mid, len(best))
			} else {
				lo = mid + 1
			}
		}
		// 2. chunk deletion
		for sz := len(best) / 2; sz >= 1; sz /= 2 {
			for i := 0; i+sz <= len(best); {
				cand := append(append([]uint32(nil), best[:i]...), best[i+sz:]...)
				if !try(cand) {
					i += sz
				}
			}
		}
		// 3. zeroing / lowering single entries
		for i := 0; i < len(best); i++ {
			if best[i] == 0 {
				continue
			}
			cand := append([]uint32(nil), best...)
			cand[i] = 0
			if try(cand) {
				continue
			}
			if i < len(best) && best[i] > 1 {
				cand = append([]uint32(nil), best...)
				cand[i] = best[i] / 2
				if !try(cand) {
					cand[i] = best[i] - 1
					try(cand)
				}
			}
		}
		if len(best) == before && tapeSum(best) == beforeSum {
			break
		}
	}
	return ReplayFile{Property: p.ID, Tier: tier, Tape: best, Class: bestOut.viol.Class, Sig: bestOut.viol.Sig, Message: bestOut.viol.Message,
		Digest: fmt.Sprintf("%016x", bestOut.digest), Trace: bestOut.trace, Unshrunk: &unshrunk}
}

func tapeSum(t []uint32) uint64 {
	var s uint64
	for _, v := range t {
		s += uint64(v)
	}
	return s
}

func replayMain(t *testing.T, p *Property, path string, res *WorkerResult, writeRes func()) {
	b, err := os.ReadFile(path)
	if err != nil {
		res.Infra = err.Error()
		writeRes()
		t.Fatalf("infra: %v", err)
	}
	var rf ReplayFile
	if err := json.Unmarshal(b, &rf); err != nil {
		res.Infra = err.Error()
		writeRes()
		t.Fatalf("infra: %v", err)
	}
	tier := rf.Tier
	if tier == "" {
		tier = "quick"
	}
	o := execRun(t, p, NewReplayChooser(rf.Tape), tier, false)
	res.Runs = 1
	accumulate(res, &o)
	for _, l := range o.trace {
		fmt.Println("  | " + l)
	}
	switch {
	case o.infra != "" && o.viol == nil:
		res.Infra = o.infra
		res.ReplayResult = "infra"
	case o.viol == nil:
		res.ReplayResult = "no violation"
		fmt.Printf("REPLAY property=%s: no violation (digest %016x, recorded %s)\n", p.ID, o.digest, rf.Digest)
	default:
		same := o.viol.Class == rf.Class && o.viol.Sig == rf.Sig
		dig := fmt.Sprintf("%016x", o.digest)
		res.ReplayResult = fmt.Sprintf("violation class=%s sig=%s same_class=%v same_digest=%v", o.viol.Class, o.viol.Sig, same, dig == rf.Digest)
		fmt.Printf("REPLAY property=%s: %s\n%s\n", p.ID, res.ReplayResult, o.viol.Message)
		res.Violations = append(res.Violations, ReplayFile{Property: p.ID, Tier: tier, Tape: o.tape, Class: o.viol.Class, Sig: o.viol.Sig, Message: o.viol.Message, Digest: dig, Trace: o.trace, Path: path})
	}
	writeRes()
}
