package putsvc

// C25: a PUT reports full success only if the storage policy's copies were acknowledged.
//
// Oracle (written from the statement and the API documentation of the initial placement
// policy, not from the code): see c25Judge.

import (
	"context"
	"errors"
	"fmt"
	"sort"
	"strconv"
	"strings"
	"time"

	iec "github.com/nspcc-dev/neofs-node/internal/ec"
	"github.com/nspcc-dev/neofs-node/pkg/services/object/common"
	objutil "github.com/nspcc-dev/neofs-node/pkg/services/object/util"
	apistatus "github.com/nspcc-dev/neofs-sdk-go/client/status"
	"github.com/nspcc-dev/neofs-sdk-go/netmap"
	"github.com/nspcc-dev/neofs-sdk-go/object"
	oid "github.com/nspcc-dev/neofs-sdk-go/object/id"
	"verif/simkit"
)

func propC25() *simkit.Property {
	return &simkit.Property{
		ID: "C25", Level: "exploration", Bubble: true, TapeLimit: 600,
		Rule: "each run = one storage policy (0-3 REP rules with 1-4 copies, 0-3 EC rules incl. repeated ones (in 6% of the runs instead one wide EC rule of 16-22 parts over a pool of 18-23 nodes), node lists of 1-2x the needed size drawn from a pool of 4-9 nodes so that lists overlap, optional initial placement policy with per-rule limits / total cap / prefer-local, local node inside some lists or outside) and one object (node-sliced regular, client-sealed regular, client-made EC part, LOCK, TOMBSTONE) put through the real Service.Put stream; every per-node delivery parks at a gate, the seeded scheduler picks completion order and per-node outcome (ok, 4 error kinds, ack lost, slow, very slow, timeout at the caller's deadline); the result of Close is judged against the recorded acknowledgements. distinct = trace digest; non-trivial = >=1 delivery did not succeed, or a node shared by two lists was used, and >=3 deliveries happened",
		Run:  runC25,
		Assumptions: []string{
			"a node acknowledges storage = the seam call (local ObjectStorage.Put / Transport.SendReplicationRequestToNode / client PUT stream Close) returned nil",
			"where the statement leaves open whether one acknowledging node may serve two rules, both readings are accepted: a node counts for every rule whose list contains it",
			"under an initial policy: MaxReplicas==0 -> every rule needs its limit (limit defaults to the main rule; EC: 1 = all parts); MaxReplicas>0 -> the sum over rules of min(acknowledged, limit) must reach MaxReplicas (API doc of PlacementPolicy.Initial)",
			"EC rules are not judged for objects the node cannot encode (client-sealed regular object in a REP+EC container, LOCK/TOMBSTONE); only their REP rules are",
			"ContainerNodes contract is kept by the fake (every list at least as long as the rule needs)",
			"metadata-consistency containers (on-chain object meta) are not simulated",
		},
		Components: map[string]string{
			"Service.Put / Streamer / validatingTarget / slicingTarget / distributedTarget.Close+saveObject": "real",
			"placementIterator.handleREPRule / iterateNodesForObject / repProgress":                         "real",
			"applyECRule / ecProgress / distributeECPart / internal/ec encoder":                             "real",
			"remote storage nodes": "simulated: Transport and ClientConstructor fakes with a gate per delivery, outcome chosen by the scheduler",
			"local object storage": "simulated: recording fake with a gate",
			"container nodes, network map, container source, epoch, quotas, payments, sessions": "simulated (fixed per run)",
			"context deadline, slow nodes": "real code on the simulated clock",
		},
		DeadlockClass: "hang",
	}
}

type c25Policy struct {
	rep     []int    // copies per REP rule
	ec      [][2]int // data, parity per EC rule
	lists   [][]int  // pool indices, REP lists first
	initial bool
	limits  []int // nil: not set
	maxRep  int
	prefer  bool
}

func (p *c25Policy) limit(rule int) int {
	if p.limits != nil {
		return p.limits[rule]
	}
	if rule < len(p.rep) {
		return p.rep[rule]
	}
	return 1
}

func (p *c25Policy) String() string {
	var b strings.Builder
	for i, c := range p.rep {
		fmt.Fprintf(&b, "REP%d%v ", c, p.lists[i])
	}
	for j, e := range p.ec {
		fmt.Fprintf(&b, "EC%d/%d%v ", e[0], e[1], p.lists[len(p.rep)+j])
	}
	if p.initial {
		fmt.Fprintf(&b, "initial{limits=%v max=%d preferLocal=%v}", p.limits, p.maxRep, p.prefer)
	}
	return strings.TrimSpace(b.String())
}

const (
	c25Trusted = iota // blank regular object, the node slices/encodes and signs (owner = node key)
	c25Sealed         // regular object sealed and signed by the client
	c25Part           // EC part made by the client
	c25Lock
	c25Tomb
)

func c25KindName(k int) string {
	return [...]string{"node-formed regular", "client-sealed regular", "client-made EC part", "LOCK", "TOMBSTONE"}[k]
}

func c25GenPolicy(r *simkit.R, pool int) *c25Policy {
	p := &c25Policy{}
	if pool >= 18 {
		// a single wide EC rule (more parts than any fixed small worker limit)
		e := [2]int{12 + r.Intn(5), 4 + r.Intn(3)}
		for e[0]+e[1] > pool {
			e[0]--
		}
		p.ec = append(p.ec, e)
		n := e[0] + e[1]
		p.lists = append(p.lists, r.Perm(pool)[:n+r.Intn(pool-n+1)])
		return p
	}
	nr, ne := 0, 0
	switch r.Weighted(5, 2, 3) {
	case 0:
		nr = 1 + r.Intn(3)
	case 1:
		ne = 1 + r.Intn(3)
	default:
		nr = 1 + r.Intn(2)
		ne = 1 + r.Intn(2)
	}
	pick := func(need int) []int {
		size := need + r.Intn(min(pool, 2*need)-need+1)
		return r.Perm(pool)[:size]
	}
	for i := 0; i < nr; i++ {
		c := 1 + r.Intn(min(4, pool))
		p.rep = append(p.rep, c)
		p.lists = append(p.lists, pick(c))
	}
	for j := 0; j < ne; j++ {
		var e [2]int
		if j > 0 && r.Bool(45) {
			e = p.ec[j-1] // "same rule may repeat"
		} else {
			e[0] = 1 + r.Intn(3)
			e[1] = 1 + r.Intn(2)
			for e[0]+e[1] > pool {
				e[0]--
			}
		}
		p.ec = append(p.ec, e)
	}
	for j := 0; j < ne; j++ {
		p.lists = append(p.lists, pick(p.ec[j][0]+p.ec[j][1]))
	}
	if r.Bool(45) {
		// initial placement policy, kept within the documented validity rules
		n := nr + ne
		sumMain := ne
		for _, c := range p.rep {
			sumMain += c
		}
		sum := sumMain
		differs := false
		if r.Bool(65) {
			p.limits = make([]int, n)
			sum = 0
			for i := 0; i < n; i++ {
				if i < nr {
					p.limits[i] = r.Intn(p.rep[i] + 1)
					differs = differs || p.limits[i] < p.rep[i]
				} else {
					p.limits[i] = r.Intn(2)
					differs = differs || p.limits[i] == 0
				}
				sum += p.limits[i]
			}
		}
		if sum > 0 && r.Bool(60) {
			p.maxRep = 1 + r.Intn(sum)
			p.prefer = r.Bool(50)
		}
		valid := sum > 0 && (p.maxRep > 0 || (p.limits != nil && differs))
		if valid {
			p.initial = true
		} else {
			p.limits, p.maxRep, p.prefer = nil, 0, false
		}
	}
	return p
}

type c25Ack struct {
	node   int
	id     oid.ID
	parent oid.ID // EC parts
	rule   int    // EC parts, else -1
	part   int
}

func runC25(r *simkit.R) {
	k := simkit.NewKernel(r)
	pool := 4 + r.Intn(6)
	if r.Bool(6) {
		pool = 18 + r.Intn(6)
		r.Probe("wide EC rule (17-22 parts)")
	}
	pol := c25GenPolicy(r, pool)
	localIdx := r.Intn(pool + 1)
	if localIdx == pool {
		localIdx = -1
	}
	w := newPvWorld(r, k, pool, localIdx)
	var ip *netmap.InitialPlacementPolicy
	if pol.initial {
		ip = new(netmap.InitialPlacementPolicy)
		if pol.limits != nil {
			l := make([]uint32, len(pol.limits))
			for i := range l {
				l[i] = uint32(pol.limits[i])
			}
			ip.SetReplicaLimits(l)
		}
		ip.SetMaxReplicas(uint32(pol.maxRep))
		ip.SetPreferLocal(pol.prefer)
	}
	w.setPolicy(pol.rep, pol.ec, pol.lists, ip)
	w.build()

	// object kind
	kw := []int{5, 3, 2, 1, 1}
	if len(pol.rep) == 0 {
		kw[c25Sealed] = 0 // refused a priori (no EC part info in a signed object)
	}
	if len(pol.ec) == 0 {
		kw[c25Part] = 0
	}
	kind := r.Weighted(kw...)
	size := []int{300, 0, 1, 7, 64, 600}[r.Intn(6)]
	payload := r.Bytes(size)

	// per-node behaviour
	mode := r.Weighted(2, 5, 3)
	behave := make([]int, pool) // verdict, or -1 flaky
	for i := range behave {
		okPct := []int{100, 70, 40}[mode]
		if r.Bool(100 - okPct) {
			behave[i] = []int{pvErrGeneric, pvErrRemoved, pvErrSpace, pvErrIncompl, pvErrLostAck, pvSlow, pvVerySlow, pvTimeout, -1, -1}[r.Intn(10)]
		}
	}
	localBehave := 0
	if localIdx < 0 && mode > 0 && r.Bool(10) {
		localBehave = pvErrSpace
	}
	deadline := []time.Duration{20 * time.Second, 5 * time.Second}[r.Intn(2)]

	var bs []string
	for i, b := range behave {
		if b == -1 {
			bs = append(bs, fmt.Sprintf("n%d:flaky", i))
		} else if b != 0 {
			bs = append(bs, fmt.Sprintf("n%d:%s", i, pvVerdictName(b)))
		}
	}
	r.Logf("policy %s | pool=%d local=%s | object: %s, %d bytes | nodes %v | deadline %s", pol, pool, w.nodeName(localIdx), c25KindName(kind), size, bs, deadline)

	// ---- build the request ----
	hdr, tokens, partRule, partIdx := c25Object(r, w, pol, kind, payload)
	switch kind {
	case c25Part:
		payload = hdr.Payload()
	case c25Lock, c25Tomb:
		payload = nil
	}

	ctx, cancel := context.WithTimeout(context.Background(), deadline)
	r.OnCleanup(func() { cancel(); k.Shutdown(); time.Sleep(100 * time.Millisecond) })

	var resID oid.ID
	var resErr error
	stage := ""
	put := func() {
		defer w.pvCatchPanic(c25Shape(pol, kind))
		stream, err := w.svc.Put(ctx)
		if err != nil {
			resErr, stage = err, "put"
			return
		}
		prm := new(PutInitPrm).WithObject(hdr.CutPayload()).WithCommonPrm(objutil.CommonPrmFromRequest(2, nil, tokens))
		if err = stream.Init(prm); err != nil {
			resErr, stage = err, "init"
			return
		}
		// two chunks, to pass the payload through the streaming path
		half := len(payload) / 2
		for _, ch := range [][]byte{payload[:half], payload[half:]} {
			if len(ch) == 0 {
				continue
			}
			if err = stream.SendChunk(new(PutChunkPrm).WithChunk(ch)); err != nil {
				resErr, stage = err, "chunk"
				return
			}
		}
		resID, resErr = stream.Close()
		stage = "close"
	}

	k.SetPass(false)
	finished := w.drive("put", put, func(key string) int {
		name := gateNode(key)
		if name == "local" {
			return localBehave
		}
		n, _ := strconv.Atoi(name)
		b := behave[n]
		if b == -1 {
			b = []int{pvOK, pvErrGeneric, pvOK, pvErrLostAck}[r.Intn(4)]
		}
		return b
	})
	if r.Violated() {
		return
	}
	w.reportPanic()
	if !finished {
		r.Failf("hang", "PUT does not return", "the PUT did not return within 3 simulated minutes after the last delivery (deadline %s)", deadline)
	}
	r.Op("PUT %s -> %s (at %s)", c25KindName(kind), pvErrClass(resErr), stage)

	// ---- collect the acknowledgements ----
	var acks []c25Ack
	bad, total := 0, 0
	for _, rec := range w.recs {
		total++
		if rec.binErr != "" {
			r.Failf("put-transport", "a node is handed a broken binary: "+rec.binErr, "node %s (%s): %s", w.nodeName(rec.node), rec.via, rec.binErr)
		}
		if !rec.acked {
			bad++
			continue
		}
		a := c25Ack{node: rec.node, id: rec.obj.GetID(), rule: -1, part: -1}
		if rs, ps, ok := pvECInfo(&rec.obj); ok {
			ri, e1 := strconv.Atoi(rs)
			pi, e2 := strconv.Atoi(ps)
			if e1 != nil || e2 != nil {
				r.Failf("put-ec-attr", "stored EC part has non-numeric index attributes", "rule=%q part=%q", rs, ps)
			}
			a.rule, a.part = ri, pi
			if par := rec.obj.Parent(); par != nil {
				a.parent = par.GetID()
			}
		}
		acks = append(acks, a)
	}
	for _, l := range c25AckLines(acks, resID, w) {
		r.Logf("  %s", l)
	}

	shared := false
	for _, a := range acks {
		cnt := 0
		for _, l := range pol.lists {
			for _, n := range l {
				if n == a.node {
					cnt++
				}
			}
		}
		if cnt > 1 {
			shared = true
		}
	}
	if total >= 3 && (bad > 0 || shared) {
		r.Nontrivial()
	}
	for _, a := range acks {
		if a.rule >= 0 && a.rule < len(pol.ec) && a.parent == resID {
			l := pol.lists[len(pol.rep)+a.rule]
			if a.part >= 0 && a.part < len(l) && l[a.part] != a.node {
				r.Probe("EC part acknowledged by a reserve node")
			}
		} else if a.rule < 0 {
			for i, c := range pol.rep {
				for pos, n := range pol.lists[i] {
					if n == a.node && pos >= c {
						r.Probe("REP copy acknowledged by a reserve node")
					}
				}
			}
		}
	}
	if len(w.posts) > 0 {
		r.Probe("post-placement replication requested")
	}
	if ctx.Err() != nil {
		r.Probe("caller's deadline expired during the PUT")
	}

	attempted := make([]bool, len(pol.ec))
	for _, rec := range w.recs {
		if rs, _, ok := pvECInfo(&rec.obj); ok {
			if ri, err := strconv.Atoi(rs); err == nil && ri >= 0 && ri < len(attempted) {
				attempted[ri] = true
			}
		}
	}
	ok, why := c25Judge(pol, kind, partRule, partIdx, resID, acks, attempted)
	switch {
	case resErr == nil:
		r.Probe("PUT reports full success")
		if pol.initial {
			r.Probe("full success under an initial placement policy")
		}
		if shared {
			r.Probe("success with a node that belongs to several lists")
		}
		if resID.IsZero() {
			r.Failf("put-result", "success without object id", "Close returned nil error and a zero id")
		}
		if !ok {
			r.Failf("put-success-without-copies", c25Sig(pol, kind, why), "PUT of a %s object reported full success, but %s.\npolicy: %s\nacknowledged: %s", c25KindName(kind), why, pol, strings.Join(c25AckLines(acks, resID, w), "; "))
		}
	case errors.Is(resErr, apistatus.ErrIncomplete):
		r.Probe("PUT reports the incomplete status")
		if ok {
			r.Probe("incomplete/error although the acknowledgements satisfy the policy (allowed)")
		}
	default:
		r.Probe("PUT reports an error")
		if ok && len(acks) > 0 {
			r.Probe("incomplete/error although the acknowledgements satisfy the policy (allowed)")
		}
		if len(acks) > 0 {
			r.Probe("plain error although some node acknowledged")
		}
	}
}

// c25Sig names what was short without run-specific values.
func c25Sig(pol *c25Policy, kind int, why string) string {
	s := "success reported, "
	switch {
	case strings.HasPrefix(why, "EC-twin-off"):
		s += "a repeated EC rule was never attempted, its earlier twin is switched off by the initial policy"
	case strings.HasPrefix(why, "EC-elsewhere") && strings.Contains(why, "repeats an earlier one"):
		s += "all parts of a repeated EC rule stored, but outside its own node list"
	case strings.HasPrefix(why, "EC-elsewhere"):
		s += "all parts of an EC rule stored, but outside its own node list"
	case strings.HasPrefix(why, "EC"):
		s += "EC rule not fully stored on its own list"
	case strings.HasPrefix(why, "total"):
		s += "fewer than MaxReplicas placed"
	case strings.HasPrefix(why, "the EC part"):
		s += "EC part not stored on its rule's list"
	default:
		s += "REP rule short of acknowledged copies"
	}
	return s + " [" + c25Shape(pol, kind) + "]"
}

// c25Shape describes the policy shape and object kind (no run-specific values).
func c25Shape(pol *c25Policy, kind int) string {
	var s string
	switch {
	case len(pol.rep) > 0 && len(pol.ec) > 0:
		s = "REP+EC policy"
	case len(pol.ec) > 0:
		s = "EC policy"
	default:
		s = "REP policy"
	}
	dup := false
	for j := 1; j < len(pol.ec); j++ {
		for i := 0; i < j; i++ {
			if pol.ec[i] == pol.ec[j] {
				dup = true
			}
		}
	}
	if dup {
		s += ", repeated EC rule"
	}
	if pol.initial {
		s += ", initial policy"
		if pol.maxRep > 0 {
			s += " with MaxReplicas"
		}
		if pol.prefer {
			s += " and PreferLocal"
		}
	}
	return s + "; " + c25KindName(kind)
}

func c25AckLines(acks []c25Ack, res oid.ID, w *pvWorld) []string {
	var out []string
	for _, a := range acks {
		what := "object"
		if a.rule >= 0 {
			what = fmt.Sprintf("part %d of EC rule %d", a.part, a.rule)
			if a.parent != res && a.id != res {
				what += " (of another object)"
			}
		} else if a.id != res && !res.IsZero() {
			what = "another object"
		}
		out = append(out, fmt.Sprintf("node %s acknowledged %s", w.nodeName(a.node), what))
	}
	sort.Strings(out)
	return out
}

// c25Judge decides whether the acknowledgements allow "full success".
func c25Judge(pol *c25Policy, kind, partRule, partIdx int, res oid.ID, acks []c25Ack, attempted []bool) (bool, string) {
	nr := len(pol.rep)
	inList := func(rule, node int) bool {
		for _, n := range pol.lists[rule] {
			if n == node {
				return true
			}
		}
		return false
	}
	if kind == c25Part {
		// a single EC part: it must be on a node of its rule's list, unless the initial policy
		// switches the rule off
		if pol.initial && pol.limits != nil && pol.limits[nr+partRule] == 0 {
			return true, ""
		}
		for _, a := range acks {
			if a.id == res && inList(nr+partRule, a.node) {
				return true, ""
			}
		}
		return false, fmt.Sprintf("the EC part (rule %d, part %d) was acknowledged by no node of that rule's list %v", partRule, partIdx, pol.lists[nr+partRule])
	}
	// REP rules: distinct nodes of the rule's own list that acknowledged the object itself
	got := make([]int, nr)
	for i := 0; i < nr; i++ {
		seen := map[int]bool{}
		for _, a := range acks {
			if a.rule < 0 && a.id == res && inList(i, a.node) {
				seen[a.node] = true
			}
		}
		got[i] = len(seen)
	}
	// EC rules: all parts on distinct nodes of the rule's own list
	ecJudged := kind == c25Trusted
	ecDone := make([]bool, len(pol.ec))
	ecWhy := make([]string, len(pol.ec))
	for j := range pol.ec {
		t := pol.ec[j][0] + pol.ec[j][1]
		cand := make([][]int, t)
		for _, a := range acks {
			if a.rule == j && a.parent == res && a.part >= 0 && a.part < t && inList(nr+j, a.node) {
				cand[a.part] = append(cand[a.part], a.node)
			}
		}
		ecDone[j] = c25Matching(cand)
		if !ecDone[j] {
			var miss []string
			for p := range cand {
				if len(cand[p]) == 0 {
					miss = append(miss, strconv.Itoa(p))
				}
			}
			// were all parts stored on distinct nodes, just not on nodes of this rule's list?
			anyw := make([][]int, t)
			for _, a := range acks {
				if a.rule == j && a.parent == res && a.part >= 0 && a.part < t {
					anyw[a.part] = append(anyw[a.part], a.node)
				}
			}
			if c25Matching(anyw) {
				rep := ""
				for i := 0; i < j; i++ {
					if pol.ec[i] == pol.ec[j] {
						rep = " (the rule repeats an earlier one)"
					}
				}
				ecWhy[j] = fmt.Sprintf("EC-elsewhere rule %d (%d/%d)%s: all parts were acknowledged by distinct nodes, but not by nodes of its own list %v", j, pol.ec[j][0], pol.ec[j][1], rep, pol.lists[nr+j])
			} else if len(miss) > 0 {
				ecWhy[j] = fmt.Sprintf("EC rule %d (%d/%d): parts %s were acknowledged by no node of its list %v", j, pol.ec[j][0], pol.ec[j][1], strings.Join(miss, ","), pol.lists[nr+j])
			} else {
				ecWhy[j] = fmt.Sprintf("EC rule %d (%d/%d): its parts do not sit on distinct nodes of its list %v", j, pol.ec[j][0], pol.ec[j][1], pol.lists[nr+j])
			}
		}
	}
	// diagnosis only: rule j was never even attempted and an identical earlier rule is
	// switched off by the initial policy
	twin := func(j int) string {
		if !pol.initial || attempted[j] {
			return ""
		}
		for i := 0; i < j; i++ {
			if pol.ec[i] == pol.ec[j] && pol.limit(nr+i) == 0 {
				return fmt.Sprintf("EC-twin-off (no part of EC rule %d was sent to any node; the identical rule %d is switched off by the initial policy) ", j, i)
			}
		}
		return ""
	}
	if !pol.initial || pol.maxRep == 0 {
		for i := 0; i < nr; i++ {
			need := pol.rep[i]
			if pol.initial {
				need = pol.limit(i)
			}
			if got[i] < need {
				return false, fmt.Sprintf("REP rule %d needs %d distinct nodes of its list %v, only %d acknowledged", i, need, pol.lists[i], got[i])
			}
		}
		if ecJudged {
			for j := range pol.ec {
				if pol.initial && pol.limit(nr+j) == 0 {
					continue
				}
				if !ecDone[j] {
					return false, twin(j) + ecWhy[j]
				}
			}
		}
		return true, ""
	}
	total := 0
	for i := 0; i < nr; i++ {
		total += min(got[i], pol.limit(i))
	}
	tw := ""
	for j := range pol.ec {
		if pol.limit(nr+j) == 0 {
			continue
		}
		if ecJudged {
			if ecDone[j] {
				total++
			} else if tw == "" {
				tw = twin(j)
				if tw == "" && strings.HasPrefix(ecWhy[j], "EC-elsewhere") {
					tw = ecWhy[j] + "; "
				}
			}
			continue
		}
		// an object the node cannot encode is replicated as a whole over the EC list: the
		// statement does not say how that counts; any acknowledgement from the list is accepted
		for _, a := range acks {
			if a.rule < 0 && a.id == res && inList(nr+j, a.node) {
				total++
				break
			}
		}
	}
	if total < pol.maxRep {
		return false, tw + fmt.Sprintf("total: MaxReplicas is %d, but only %d replicas / EC partitions were acknowledged within the per-rule limits (REP acknowledged per rule %v, EC rules complete %v)", pol.maxRep, total, got, ecDone)
	}
	return true, ""
}

// c25Matching: can every part be assigned a distinct node among its candidates?
func c25Matching(cand [][]int) bool {
	owner := map[int]int{}
	var try func(p int, seen map[int]bool) bool
	try = func(p int, seen map[int]bool) bool {
		for _, n := range cand[p] {
			if seen[n] {
				continue
			}
			seen[n] = true
			if q, taken := owner[n]; !taken || try(q, seen) {
				owner[n] = p
				return true
			}
		}
		return false
	}
	for p := range cand {
		if !try(p, map[int]bool{}) {
			return false
		}
	}
	return true
}

// c25Object builds the request: header, tokens and (for a client-made EC part) its position.
func c25Object(r *simkit.R, w *pvWorld, pol *c25Policy, kind int, payload []byte) (*object.Object, common.RequestTokens, int, int) {
	var tokens common.RequestTokens
	attrs := []object.Attribute{object.NewAttribute("FileName", "verif.bin")}
	switch kind {
	case c25Trusted:
		// no session: the node signs with its own key, which must be the owner's
		o := object.New(w.cnrID, pvUser(pvKeyNode))
		o.SetAttributes(attrs...)
		o.SetPayloadSize(uint64(len(payload)))
		return o, tokens, -1, -1
	case c25Sealed:
		o := object.New(w.cnrID, pvUser(pvKeyOwner))
		o.SetCreationEpoch(w.epoch)
		o.SetAttributes(attrs...)
		o.SetPayload(payload)
		o.SetPayloadSize(uint64(len(payload)))
		if err := o.SetVerificationFields(pvSigner(pvKeyOwner)); err != nil {
			r.Failf("infra", "sign", "%v", err)
		}
		return o, tokens, -1, -1
	case c25Part:
		par := object.New(w.cnrID, pvUser(pvKeyOwner))
		par.SetCreationEpoch(w.epoch)
		par.SetPayload(payload)
		par.SetPayloadSize(uint64(len(payload)))
		var hashes []string
		var partsByRule [][][]byte
		for _, e := range pol.ec {
			pl := append([]byte(nil), payload...)
			parts, sums, err := iec.Encode(iec.Rule{DataPartNum: uint8(e[0]), ParityPartNum: uint8(e[1])}, pl[:len(pl):len(pl)])
			if err != nil {
				r.Failf("infra", "ec-encode", "%v", err)
			}
			hashes = append(hashes, sums...)
			partsByRule = append(partsByRule, parts)
		}
		par.SetAttributes(append(attrs, object.NewAttribute(iec.AttributePartsHashes, strings.Join(hashes, ",")))...)
		if err := par.SetVerificationFields(pvSigner(pvKeyOwner)); err != nil {
			r.Failf("infra", "sign", "%v", err)
		}
		par.SetPayload(nil)
		rule := r.Intn(len(pol.ec))
		idx := r.Intn(pol.ec[rule][0] + pol.ec[rule][1])
		part, err := iec.FormObjectForECPart(nil, *par, partsByRule[rule][idx], iec.PartInfo{RuleIndex: rule, Index: idx})
		if err != nil {
			r.Failf("infra", "ec-part", "%v", err)
		}
		return &part, tokens, rule, idx
	default:
		o := object.New(w.cnrID, pvUser(pvKeyOwner))
		o.SetCreationEpoch(w.epoch)
		o.SetAttributes(object.NewAttribute(object.AttributeExpirationEpoch, strconv.FormatUint(w.epoch+50, 10)))
		var target oid.ID
		copy(target[:], r.Bytes(32))
		target[0] |= 1
		if kind == c25Lock {
			o.SetType(object.TypeLock)
			o.AssociateLocked(target)
		} else {
			o.SetType(object.TypeTombstone)
			o.AssociateDeleted(target)
		}
		if err := o.SetVerificationFields(pvSigner(pvKeyOwner)); err != nil {
			r.Failf("infra", "sign", "%v", err)
		}
		return o, tokens, -1, -1
	}
}
