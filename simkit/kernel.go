package simkit

import (
	"runtime/debug"
	"sort"
	"sync"
	"sync/atomic"
	"testing/synctest"
	"time"
)

// Kernel is the ticket-gate scheduler used by worlds with real goroutines.
//
// System goroutines (and workload tasks) call Gate at seams the simulator owns; they park
// there until the scheduler — the bubble's main goroutine, the only goroutine that draws
// from the tape — grants the ticket, optionally with a verdict (fault to inject).  The
// scheduler itself never calls into the system under test.
type Kernel struct {
	R *R
	// Eligible, when set, tells whether a parked ticket may be granted now (worlds with lock
	// tickets: a waiter is offered only after an unlock event).
	Eligible func(key string) bool

	mu       sync.Mutex
	parked   []*Ticket
	arrival  uint64
	live     int
	nextTask int
	finished []*Task
	seq      uint64
	pass     atomic.Bool
	closed   atomic.Bool
}

// Ticket is a parked goroutine waiting at a gate.
type Ticket struct {
	Key     string
	arrival uint64
	ch      chan int
}

// Task is a workload operation (or any activity) running on its own goroutine.
type Task struct {
	Name string
	ID   int
	Call uint64 // event sequence number at invocation
	Ret  uint64 // event sequence number at which the scheduler observed the return
	Done bool
	Val  any
	Err  error
}

// NewKernel creates a kernel; gates pass through until SetPass(false).
func NewKernel(r *R) *Kernel {
	k := &Kernel{R: r}
	k.pass.Store(true)
	return k
}

// SetPass switches gates between parking (false) and passing through (true).
func (k *Kernel) SetPass(b bool) { k.pass.Store(b) }

// Passing reports whether gates currently pass through.
func (k *Kernel) Passing() bool { return k.pass.Load() }

// Closed reports whether Shutdown was called (teardown in progress).
func (k *Kernel) Closed() bool { return k.closed.Load() }

// Shutdown makes every current and future gate pass through (used at teardown).
func (k *Kernel) Shutdown() {
	k.closed.Store(true)
	k.pass.Store(true)
	k.mu.Lock()
	p := k.parked
	k.parked = nil
	k.mu.Unlock()
	for _, t := range p {
		t.ch <- 0
	}
}

// Gate parks the calling goroutine until the scheduler grants it; returns the verdict
// chosen by the scheduler (0 = proceed normally).  With pass-through on it returns 0 at once.
func (k *Kernel) Gate(key string) int {
	if k == nil || k.pass.Load() {
		return 0
	}
	t := &Ticket{Key: key, ch: make(chan int, 1)}
	k.mu.Lock()
	if k.pass.Load() {
		k.mu.Unlock()
		return 0
	}
	k.arrival++
	t.arrival = k.arrival
	k.parked = append(k.parked, t)
	k.mu.Unlock()
	return <-t.ch
}

// Seq returns the next global event sequence number.
func (k *Kernel) Seq() uint64 { return atomic.AddUint64(&k.seq, 1) }

// Go starts f as a task.  Must be called by the scheduler goroutine.
func (k *Kernel) Go(name string, f func(t *Task)) *Task {
	k.mu.Lock()
	k.nextTask++
	t := &Task{Name: name, ID: k.nextTask}
	k.live++
	k.mu.Unlock()
	t.Call = k.Seq()
	go func() {
		defer func() {
			x := recover()
			k.mu.Lock()
			k.live--
			k.finished = append(k.finished, t)
			k.mu.Unlock()
			if x != nil {
				if _, ok := x.(stopRun); !ok {
					k.R.Report("panic", panicSite(), "panic in task %s: %v\n%s", name, x, debug.Stack())
				}
			}
		}()
		f(t)
	}()
	return t
}

// Quiesce waits until every goroutine of the bubble is parked, blocked or finished.
func (k *Kernel) Quiesce() { synctest.Wait() }

// Collect returns the tasks that finished since the last call, in task order, stamping Ret.
func (k *Kernel) Collect() []*Task {
	k.mu.Lock()
	f := k.finished
	k.finished = nil
	k.mu.Unlock()
	sort.Slice(f, func(i, j int) bool { return f[i].ID < f[j].ID })
	for _, t := range f {
		t.Ret = k.Seq()
		t.Done = true
	}
	return f
}

// Live is the number of unfinished tasks.
func (k *Kernel) Live() int { k.mu.Lock(); defer k.mu.Unlock(); return k.live }

// Parked returns the parked tickets in deterministic order (key, then arrival).
func (k *Kernel) Parked() []*Ticket {
	k.mu.Lock()
	p := append([]*Ticket(nil), k.parked...)
	k.mu.Unlock()
	sort.SliceStable(p, func(i, j int) bool {
		if p[i].Key != p[j].Key {
			return p[i].Key < p[j].Key
		}
		return p[i].arrival < p[j].arrival
	})
	return p
}

// Grant releases a parked ticket with a verdict.
func (k *Kernel) Grant(t *Ticket, verdict int) {
	k.mu.Lock()
	for i, x := range k.parked {
		if x == t {
			k.parked = append(k.parked[:i], k.parked[i+1:]...)
			break
		}
	}
	k.mu.Unlock()
	k.Seq()
	t.ch <- verdict
}

// Sleep advances the fake clock.
func (k *Kernel) Sleep(d time.Duration) {
	k.R.AddSimTime(d)
	time.Sleep(d)
}

// Pump advances the fake clock in growing steps until a ticket parks, a task finishes or
// maxSim of simulated time has passed.  Returns false if nothing changed (stuck).
func (k *Kernel) Pump(maxSim time.Duration) bool {
	state := func() (int, int, uint64) {
		k.mu.Lock()
		defer k.mu.Unlock()
		return len(k.parked), k.live, k.arrival
	}
	p0, l0, a0 := state()
	step := time.Millisecond
	var total time.Duration
	for total < maxSim {
		k.Sleep(step)
		total += step
		synctest.Wait()
		p, l, a := state()
		if p != p0 || l != l0 || a != a0 {
			return true
		}
		if step < 5*time.Second {
			step *= 4
		}
	}
	return false
}

// RunExclusive runs f as a task with all gates passing through, pumping time until it
// returns (for actions that need write locks: mode changes, close, reopen).  All parked
// tickets are granted first (verdict 0) and running tasks are drained.
func (k *Kernel) RunExclusive(name string, maxSim time.Duration, f func()) bool {
	if !k.Drain(maxSim) {
		return false
	}
	was := k.pass.Load()
	k.pass.Store(true)
	defer k.pass.Store(was)
	t := k.Go(name, func(*Task) { f() })
	var total time.Duration
	step := time.Millisecond
	for {
		synctest.Wait()
		k.mu.Lock()
		done := false
		for i, x := range k.finished {
			if x == t {
				k.finished = append(k.finished[:i], k.finished[i+1:]...)
				done = true
				break
			}
		}
		k.mu.Unlock()
		if done {
			t.Ret = k.Seq()
			t.Done = true
			return true
		}
		if total >= maxSim {
			return false
		}
		k.Sleep(step)
		total += step
		if step < 5*time.Second {
			step *= 4
		}
	}
}

// Drain grants every parked ticket (verdict 0, deterministic order) and pumps time until no
// task is live and nothing is parked.  Finished tasks stay in the finished list for Collect.
func (k *Kernel) Drain(maxSim time.Duration) bool {
	var total time.Duration
	step := time.Millisecond
	for {
		synctest.Wait()
		p := k.Parked()
		if k.Eligible != nil {
			// (lock waiters that cannot make progress yet are not granted: see simfs.RWLock)
			el := p[:0:0]
			for _, t := range p {
				if k.Eligible(t.Key) {
					el = append(el, t)
				}
			}
			if len(el) == 0 && len(p) > 0 {
				if total >= maxSim {
					return false
				}
				k.Sleep(step)
				total += step
				if step < 5*time.Second {
					step *= 4
				}
				continue
			}
			p = el
		}
		if len(p) > 0 {
			k.Grant(p[0], 0)
			step = time.Millisecond
			continue
		}
		if k.Live() == 0 {
			// Background goroutines (flush workers, GC) may be between two gates inside a short
			// timed wait (bbolt batch delay, FSTree batch interval) while holding a read lock.
			// Give them a quiet period on the simulated clock; if they reach a gate, keep draining.
			quiet := true
			for i := 0; i < 3 && quiet; i++ {
				k.Sleep(7 * time.Millisecond)
				total += 7 * time.Millisecond
				synctest.Wait()
				if len(k.Parked()) > 0 || k.Live() > 0 {
					quiet = false
				}
			}
			if quiet {
				return true
			}
			continue
		}
		if total >= maxSim {
			return false
		}
		k.Sleep(step)
		total += step
		if step < 5*time.Second {
			step *= 4
		}
	}
}
