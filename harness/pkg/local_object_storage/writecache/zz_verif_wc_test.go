package writecache

// C17: the write-cache eventually flushes everything and accounts its size exactly.
// Real write-cache (scheduler, workers, its FSTree) in a synctest bubble; the main storage is
// a real FSTree behind a gate proxy where the seeded scheduler interleaves and fails flushes.

import (
	"bytes"
	"errors"
	"fmt"
	"path/filepath"
	"sort"
	"strings"
	"testing"
	"time"

	zz "github.com/nspcc-dev/neofs-node/internal/zzverif"
	"github.com/nspcc-dev/neofs-node/pkg/local_object_storage/blobstor/common"
	"github.com/nspcc-dev/neofs-node/pkg/local_object_storage/blobstor/fstree"
	oid "github.com/nspcc-dev/neofs-sdk-go/object/id"
	"verif/simkit"
)

var errSimIO = errors.New("simulated I/O error")

type mainStor struct {
	common.Storage
	k *simkit.Kernel
}

func short(a oid.Address) string { return a.Object().String()[:6] }

func vErr(v int) error {
	switch v {
	case 1:
		return common.ErrNoSpace
	case 2:
		return errSimIO
	}
	return nil
}

func (p *mainStor) Put(a oid.Address, b []byte) error {
	if e := vErr(p.k.Gate("main:put:" + short(a))); e != nil {
		return e
	}
	return p.Storage.Put(a, b)
}

func (p *mainStor) PutBatch(m map[oid.Address][]byte) error {
	var ks []string
	for a := range m {
		ks = append(ks, short(a))
	}
	sort.Strings(ks)
	if e := vErr(p.k.Gate("main:putbatch:" + strings.Join(ks, ","))); e != nil {
		return e
	}
	return p.Storage.PutBatch(m)
}

func TestVerif(t *testing.T) {
	simkit.Main(t, &simkit.Property{
		ID: "C17", Level: "exploration", Bubble: true, TapeLimit: 4000,
		Rule: "each run = one write-cache configuration (1-4 flush workers, batch count 1..128, batch size / single-object threshold around the object sizes, cache size limit) and 8-40 operations over 3-8 objects by 1-4 concurrent tasks: Put (repeated puts of the same object included), Delete; the flush scheduler and workers run on the simulated clock and park at the main-storage proxy, where the seeded scheduler fails puts/batches (no space, I/O error) in a fault window placed while batches are being built and handed over; at quiescent points the reported used size must equal the total size of the objects in the cache directory and the size map; after the last fault, with writes stopped, within 180 simulated seconds the cache must be empty and every undeleted object must be in the main storage with identical bytes. distinct = trace digest; non-trivial = >=1 flush failed or >=1 object was put twice",
		Run:  runC17,
		Assumptions: []string{"liveness bound 180 s of simulated time after faults stop (>= 10x the code's own tick + error back-off; it is a budget of the property, not a mirrored constant)", "the scheduler's random select among ready cases is Go's (not seeded)"},
		Components: map[string]string{
			"write-cache (Put/Delete/flush scheduler/workers/counters/its FSTree)": "real",
			"main storage":            "real FSTree behind a gate proxy (per-call gate, injected no-space / I/O errors)",
			"ticker, error back-off":  "real code on the simulated clock",
			"goroutine interleaving at the storage seam": "seeded scheduler",
		},
		DeadlockClass: "hang",
	})
}

type wcOp struct {
	kind string
	id   int
	err  error
	done bool
}

func runC17(r *simkit.R) {
	k := simkit.NewKernel(r)
	r.OnCleanup(func() { k.Shutdown(); time.Sleep(50 * time.Millisecond) })
	nobj := 3 + r.Intn(6)
	u := zz.NewUniverse(r.U32()%1000, 1, nobj)
	sizes := []int{0, 40, 200, 290, 330, 900, 1300, 2800}
	bins := map[int][]byte{}
	for id := 0; id < nobj; id++ {
		u.Specs[id] = &zz.Spec{ID: id, Cnr: 0, Kind: zz.KReg, Parent: -1, First: -1, Split: -1, Exp: -1, Size: sizes[r.Intn(len(sizes))], Target: -1, ECRule: -1}
		bins[id] = u.Build(u.Specs[id]).Marshal()
	}
	mainTree := fstree.New(fstree.WithPath(filepath.Join(r.Dir, "main")), fstree.WithDepth(1), fstree.WithPerm(0o700), fstree.WithCombinedCountLimit(1), fstree.WithNoSync(true))
	if err := mainTree.Open(false); err != nil {
		r.Failf("infra", "open", "%v", err)
	}
	if err := mainTree.Init(common.ID{}); err != nil {
		r.Failf("infra", "init", "%v", err)
	}
	ms := &mainStor{Storage: mainTree, k: k}
	workers := 1 + r.Intn(4)
	bcnt := []int{128, 1, 2, 3}[r.Intn(4)]
	bsize := []uint64{8 << 20, 700, 3000}[r.Intn(3)]
	thr := []uint64{128 << 10, 300, 1200}[r.Intn(3)]
	maxSz := []uint64{1 << 30, 1 << 30, 5000}[r.Intn(3)]
	ci := New(WithPath(filepath.Join(r.Dir, "wc")), WithStorage(ms), WithFlushWorkersCount(workers), WithMaxCacheSize(maxSz),
		WithMaxFlushBatchCount(bcnt), WithMaxFlushBatchSize(bsize), WithMaxFlushBatchThreshold(thr), WithNoSync(true))
	c := ci.(*cache)
	if err := c.Open(false); err != nil {
		r.Failf("infra", "open", "%v", err)
	}
	if err := c.Init(common.ID{}); err != nil {
		r.Failf("infra", "init", "%v", err)
	}
	closed := false
	r.OnCleanup(func() {
		if !closed {
			k.SetPass(true)
			done := make(chan struct{})
			go func() { _ = c.Close(); close(done) }()
			for i := 0; i < 400; i++ {
				select {
				case <-done:
					return
				default:
					time.Sleep(100 * time.Millisecond)
				}
			}
		}
	})
	r.Logf("config workers=%d batchCount=%d batchSize=%d threshold=%d max=%d objects=%d", workers, bcnt, bsize, thr, maxSz, nobj)
	addr := func(id int) oid.Address { return u.Addr(0, id) }

	nops := 8 + r.Intn(33)
	var ops []*wcOp
	for i := 0; i < nops; i++ {
		if r.Bool(82) {
			ops = append(ops, &wcOp{kind: "put", id: r.Intn(nobj)})
		} else {
			ops = append(ops, &wcOp{kind: "delete", id: r.Intn(nobj)})
		}
	}
	faultPct := []int{0, 15, 35, 60}[r.Intn(4)]
	faultUntil := r.Intn(nops + 1) // faults stop once this many operations were started
	byTask := map[*simkit.Task]*wcOp{}
	next, started := 0, 0
	flushFailed, dupPut := false, false
	putOK := map[int]int{}
	lastWrite := map[int]string{}

	// accounting invariant at quiescent points with nothing in flight
	checkSize := func(where string) {
		var onDisk uint64
		n := 0
		err := c.fsTree.IterateSizes(func(a oid.Address, sz uint64) error { onDisk += sz; n++; return nil }, false)
		if err != nil {
			r.Failf("wc-size", "cannot iterate the cache directory", "%s: %v", where, err)
		}
		var inMap uint64
		for _, v := range c.objCounters.Map() {
			inMap += v
		}
		if got := c.objCounters.Size(); got != onDisk || inMap != onDisk {
			r.Failf("wc-size", sizeSig(got, onDisk, inMap, dupPut), "%s: the cache reports %d bytes used, its size map sums to %d, the %d objects it actually holds take %d bytes", where, got, inMap, n, onDisk)
		}
	}

	k.SetPass(false)
	maxConc := 1 + r.Intn(4)
	var pend *wcOp
	hang := ""
	for step := 0; step < 8000; step++ {
		r.Step()
		k.Quiesce()
		for _, t := range k.Collect() {
			op := byTask[t]
			op.done = true
			r.Op("%s(o%d) -> %v", op.kind, op.id, errS(op.err))
			if op.err == nil {
				lastWrite[op.id] = op.kind
				if op.kind == "put" {
					putOK[op.id]++
				}
			}
		}
		if r.Violated() {
			return
		}
		if pend == nil && next < len(ops) {
			pend = ops[next]
			next++
		}
		parked := k.Parked()
		live := k.Live()
		if len(parked) == 0 && live == 0 && r.Bool(25) {
			checkSize("quiescent point")
		}
		canStart := pend != nil && live < maxConc
		if len(parked) == 0 && !canStart {
			if live == 0 && pend == nil {
				break
			}
			if !k.Pump(3 * time.Minute) {
				hang = "operations do not finish"
				break
			}
			continue
		}
		nopt := len(parked)
		si, ti := -1, -1
		if canStart {
			si = nopt
			nopt++
		}
		ti = nopt
		nopt++
		ch := r.Intn(nopt)
		switch {
		case ch == si:
			op := pend
			pend = nil
			started++
			if op.kind == "put" && c.objCounters.HasAddress(addr(op.id)) {
				dupPut = true
			}
			t := k.Go(op.kind, func(*simkit.Task) {
				if op.kind == "put" {
					op.err = c.Put(addr(op.id), nil, bins[op.id])
				} else {
					op.err = c.Delete(addr(op.id))
				}
			})
			byTask[t] = op
		case ch == ti:
			k.Sleep([]time.Duration{20 * time.Millisecond, 400 * time.Millisecond, 1100 * time.Millisecond, 4 * time.Second}[r.Intn(4)])
		default:
			v := 0
			if started <= faultUntil && faultPct > 0 && r.Bool(faultPct) {
				v = 1 + r.Intn(2)
				flushFailed = true
				r.Fired("main storage " + []string{"", "no space", "I/O error"}[v])
			}
			r.Logf("  grant %s verdict=%d", parked[ch].Key, v)
			k.Grant(parked[ch], v)
		}
	}
	if hang != "" {
		r.Failf("hang", hang, "%s", hang)
	}
	// faults have stopped, writes have stopped: bounded liveness
	deadline := 180 * time.Second
	var waited time.Duration
	for waited < deadline {
		k.Quiesce()
		for _, t := range k.Parked() {
			r.Logf("  grant %s (recovery)", t.Key)
			k.Grant(t, 0)
		}
		k.Quiesce()
		if len(k.Parked()) == 0 && c.objCounters.Size() == 0 && len(c.objCounters.Map()) == 0 {
			left := 0
			_ = c.fsTree.IterateAddresses(func(oid.Address) error { left++; return nil }, true)
			if left == 0 {
				break
			}
		}
		k.Sleep(500 * time.Millisecond)
		waited += 500 * time.Millisecond
	}
	k.Quiesce()
	checkSize("after recovery")
	var stuck []string
	_ = c.fsTree.IterateAddresses(func(a oid.Address) error { stuck = append(stuck, fmt.Sprintf("o%d", u.IDIndex(a.Object()))); return nil }, true)
	if len(stuck) > 0 || c.objCounters.Size() != 0 {
		sort.Strings(stuck)
		r.Failf("wc-liveness", livenessSig(flushFailed), "%d s after the last fault, with writes stopped, the cache still holds %v (reported size %d); flush failures happened earlier: %v", int(deadline.Seconds()), stuck, c.objCounters.Size(), flushFailed)
	}
	for id := 0; id < nobj; id++ {
		if putOK[id] == 0 || lastWrite[id] != "put" {
			continue
		}
		b, err := mainTree.GetBytes(addr(id))
		if err != nil || !bytes.Equal(b, bins[id]) {
			// a delete that overlapped the last put may have won; only sequential histories are judged
			overl := false
			for _, op := range ops {
				if op.id == id && op.kind == "delete" && op.err == nil {
					overl = true
				}
			}
			if !overl {
				r.Failf("wc-liveness", "flushed object missing or altered in the main storage", "o%d was put and never deleted, the cache is empty, but the main storage answers: %v", id, err)
			}
		}
	}
	k.SetPass(true)
	cerr := make(chan error, 1)
	go func() { cerr <- c.Close() }()
	for i := 0; i < 600; i++ {
		select {
		case <-cerr:
			closed = true
			i = 600
		default:
			time.Sleep(100 * time.Millisecond)
		}
	}
	if !closed {
		r.Failf("hang", "close does not return", "write-cache Close did not return within 60 s of simulated time")
	}
	if flushFailed || dupPut {
		r.Nontrivial()
	}
}

func sizeSig(got, onDisk, inMap uint64, dup bool) string {
	s := "reported size differs from the held objects"
	if got > onDisk {
		s += " (over-reports)"
	} else {
		s += " (under-reports)"
	}
	if dup {
		s += " [an object was put again while already in the cache]"
	}
	return s
}

func livenessSig(failed bool) string {
	if failed {
		return "objects stay in the cache forever after transient flush failures"
	}
	return "objects stay in the cache forever without any failure"
}

func errS(err error) string {
	if err == nil {
		return "ok"
	}
	s := err.Error()
	if len(s) > 60 {
		s = s[:60]
	}
	return "ERR(" + s + ")"
}
