package simfs

import (
	"runtime"

	"github.com/klauspost/compress/zstd"
)

// The zstd package's DecodeTo keeps its decoder behind a weak pointer and closes it from a
// finalizer.  Created inside a synctest bubble, the decoder's channels belong to the bubble
// and the finalizer (running outside) panics.  The decoder below is created at package
// initialisation, outside any bubble, and lives forever.
var (
	zdec, _ = zstd.NewReader(nil, zstd.WithDecoderConcurrency(runtime.NumCPU()), zstd.WithDecoderLowmem(true), zstd.WithDecoderMaxMemory(1<<30))
	zenc, _ = zstd.NewWriter(nil)
)

func init() {
	// force the lazy initialisation of both codecs (their internal channels) to happen here,
	// outside any bubble
	b := zenc.EncodeAll([]byte("warm-up warm-up warm-up"), nil)
	_, _ = zdec.DecodeAll(b, nil)
}

// ZstdDecodeTo replaces zstd.DecodeTo (same semantics).
func ZstdDecodeTo(dst []byte, src []byte) ([]byte, error) { return zdec.DecodeAll(src, dst) }

// ZstdEncode compresses data (harness use).
func ZstdEncode(src []byte) []byte { return zenc.EncodeAll(src, nil) }
