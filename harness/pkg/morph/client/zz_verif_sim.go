//go:build verif

package client

// Simulated-chain seam (verif build only).  rules/morph.json wraps every exported method of
// *Client with a call to VerifSim; a Client created by NewSimClient routes each of them to its
// SimBackend (a chain model owned by a harness): reads are answered from the model, every
// state-changing call is recorded.  A backend may decline a call (handled=false), which runs the
// original method (only sensible for methods that do not touch the RPC connection).

import (
	"sync"

	"github.com/nspcc-dev/neo-go/pkg/crypto/keys"
	"github.com/nspcc-dev/neo-go/pkg/wallet"
)

// SimBackend answers the calls of a simulated Client.  rets must have exactly the arity of the
// method's results; a nil entry is the zero value of that result (e.g. a nil error).
type SimBackend interface {
	SimCall(c *Client, method string, args []any) (rets []any, handled bool)
}

var simClients sync.Map // *Client -> SimBackend

// VerifSim is the hook called by the wrapped methods.
var VerifSim = func(recv *Client, name string, args []any) ([]any, bool) {
	if b, ok := simClients.Load(recv); ok {
		return b.(SimBackend).SimCall(recv, name, args)
	}
	return nil, false
}

// NewSimClient returns a Client without any connection whose exported methods are served by b.
// key is the node's account (may be nil).
func NewSimClient(b SimBackend, key *keys.PrivateKey) *Client {
	c := &Client{}
	if key != nil {
		c.acc = wallet.NewAccountFromPrivateKey(key)
	}
	simClients.Store(c, b)
	return c
}

// ReleaseSimClient forgets a simulated client (end of a run).
func ReleaseSimClient(c *Client) { simClients.Delete(c) }
